"""LAYOUT helpers shared by C02 / C05: block-diagonal placement of a repeated block, mask bounds"""
from __future__ import annotations

from ..alg import Poly
from ..values import *


def block_diag(ctx, interp, bm_term, where, tag):
    """bmat(reshape(object_array(list), (m, m)))  ->  (block value, m) if the list puts the block on the diagonal"""
    arg = bm_term.args[0] if bm_term.args else None
    if not (isinstance(arg, Term) and arg.op == "m.reshape"):
        ctx.inconclusive("LAYOUT", f"{tag}.blocks", "block layout not recognised", where, witness=vstr(arg)[:200])
        return None
    arr = arg.args[0]
    shape = arg.args[1:]
    if len(shape) == 1 and isinstance(shape[0], TupleV):
        shape = shape[0].items
    cut = None
    if isinstance(arr, Term) and arr.op == "object_array" and isinstance(arr.args[0], Term) and arr.args[0].op == "listslice":
        ls = arr.args[0]
        lo_, hi_, st_ = ls.args[1].args
        if isinstance(ls.args[0], ListV) and isinstance(lo_, Const) and isinstance(hi_, Num) and isinstance(st_, Const):
            cut = -hi_.p
            arr = Term("object_array", [ls.args[0]])
    if not (isinstance(arr, Term) and arr.op == "object_array" and isinstance(arr.args[0], ListV) and len(shape) == 2 and
            all(isinstance(x, Num) for x in shape)):
        ctx.inconclusive("LAYOUT", f"{tag}.blocks", "block list not recognised", where, witness=vstr(arg)[:200])
        return None
    nr, nc = shape[0].p, shape[1].p
    items = arr.args[0].items
    if cut is not None:
        # Rep([A, None x c], K) [:-cut]  with 0 < cut: the slice could not be resolved structurally
        okf = len(items) == 1 and isinstance(items[0], Rep) and len(items[0].items) == 2 and isinstance(items[0].items[0], Elem) and \
            isinstance(items[0].items[1], Rep) and len(items[0].items[1].items) == 1 and isinstance(items[0].items[1].items[0], Elem) and \
            isinstance(items[0].items[1].items[0].value, Const) and items[0].items[1].items[0].value.v is None
        if not okf:
            ctx.inconclusive("LAYOUT", f"{tag}.blocks", "block list skeleton not recognised", where, witness=items_str(items)[:300])
            return None
        c = items[0].items[1].count
        K = items[0].count
        period = c + 1
        total = K * period - cut
        ctx.instance("LAYOUT", 2)
        probs = []
        if not (total == nr * nc):
            probs.append(f"the list has {total.pretty()} entries but the block array needs {(nr * nc).pretty()} (reshape fails)")
        if not (period == nc + 1):
            probs.append(f"block k sits at flat position k*{period.pretty()}, i.e. off the diagonal unless the period is cols+1 = {(nc + 1).pretty()}")
        ctx.violate("LAYOUT", f"{tag}.blocks.diagonal", "the periodic block list does not place the block on the diagonal of the block "
                    "array", where, "my_blocks.extend([None] * n); my_blocks = my_blocks * n; my_blocks = my_blocks[:-n]",
                    witness="; ".join(probs) or f"period {period.pretty()}, cut {cut.pretty()}")
        return None
    # expected skeleton: Rep([Elem(A), Rep([Elem(None)], c)], K-1), Elem(A)
    trailing = len(items) == 2 and isinstance(items[1], Elem)
    ok = len(items) in (1, 2) and isinstance(items[0], Rep) and (len(items) == 1 or trailing)
    if ok:
        rep = items[0]
        inner = rep.items
        ok = len(inner) == 2 and isinstance(inner[0], Elem) and isinstance(inner[1], Rep) and len(inner[1].items) == 1 and \
            isinstance(inner[1].items[0], Elem) and isinstance(inner[1].items[0].value, Const) and inner[1].items[0].value.v is None
    if not ok:
        # generic: compute from lengths whether it can be block-diagonal at all
        ln = items_len(items)
        ctx.inconclusive("LAYOUT", f"{tag}.blocks", "block list skeleton not recognised", where, witness=items_str(items)[:300])
        return None
    A = inner[0].value
    c = inner[1].count            # number of None after each block
    K = rep.count + (1 if trailing else 0)             # number of blocks
    period = c + 1
    total = rep.count * period + (1 if trailing else 0)
    ctx.instance("LAYOUT", 3)
    good = True
    if trailing and vkey(items[1].value) != vkey(A):
        ctx.violate("LAYOUT", f"{tag}.blocks.same", "the last diagonal block differs from the others", where, "my_blocks", witness=vstr(items[1].value)[:200])
        good = False
    if not (nr == nc):
        ctx.violate("LAYOUT", f"{tag}.blocks.square", "block array is not square", where, "reshape", witness=f"{nr.pretty()} x {nc.pretty()}")
        good = False
    if not (total == nr * nc):
        ctx.violate("LAYOUT", f"{tag}.blocks.length", "length of the block list does not equal rows*cols of the block array", where,
                    "my_blocks[:-n]", witness=f"length {total.pretty()} vs {(nr * nc).pretty()}")
        good = False
    if not (period == nc + 1 and K == nr):
        ctx.violate("LAYOUT", f"{tag}.blocks.diagonal", "blocks do not land on the diagonal: block k sits at flat position "
                    f"k*{period.pretty()}, i.e. row (k*{period.pretty()}) div {nc.pretty()}, which is (k,k) only if the period is "
                    "cols+1", where, "my_blocks.extend([None] * n)", witness=f"period {period.pretty()}, cols {nc.pretty()}, blocks {K.pretty()}, rows {nr.pretty()}")
        good = False
    if good:
        ctx.ok("LAYOUT", f"{tag}.blocks", f"{K.pretty()} copies of the unit-sphere block on the diagonal of a {nr.pretty()}x{nc.pretty()} block array",
               where, derived=items_str(items)[:200])
        return A, nr
    return None


def mask_bounds(cond):
    """((lo_r <= row) & (row < hi_r) & (lo_c <= col) & (col < hi_c)) -> dict role -> (lo, hi)"""
    out = {}
    def rec(c):
        if isinstance(c, CondV) and c.kind == "and":
            for a in c.args:
                rec(a)
        elif isinstance(c, CondV) and c.kind == "cmp":
            op, l, rr = c.args
            def role_of(p):
                for a in p.atoms():
                    if a[0] == "app" and a[1] in ("row", "col") and p == Poly.atom(a):
                        return a[1]
                return None
            rl, rrr = role_of(l), role_of(rr)
            if rrr and op == "<=":
                out.setdefault(rrr, {})["lo"] = l
            elif rrr and op == "<":
                out.setdefault(rrr, {})["lo"] = l + 1
            elif rl and op == "<":
                out.setdefault(rl, {})["hi"] = rr
            elif rl and op == "<=":
                out.setdefault(rl, {})["hi"] = rr + 1
            elif rl and op == ">=":
                out.setdefault(rl, {})["lo"] = rr
            elif rl and op == ">":
                out.setdefault(rl, {})["lo"] = rr + 1
            else:
                out["?"] = True
        else:
            out["?"] = True
    rec(cond)
    return out


