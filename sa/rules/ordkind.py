"""ORD — order-kind abstract interpretation (flow-sensitive, syntax-directed, interprocedural by summaries).

Kind.order ∈ ASC | DESC | UNORDERED (iteration order of a hash container) | SET (an unordered container itself)
             | SAME(<src>) (same positions as another sequence) | UNKNOWN
Kind.inner : Kind of the elements when they are sequences themselves (e.g. list of sorted groups)
Kind.alias : names of parameters / variables this value may share storage with (for the no-mutation-of-input rule)
"""
from __future__ import annotations

import ast
from dataclasses import dataclass, field, replace
from typing import Dict, Optional, List, Set, Tuple

from ..model import Repo, FunctionInfo, ModuleInfo, src

ASC, DESC, UNORDERED, SETK, UNKNOWN = "ASC", "DESC", "UNORDERED", "SET", "UNKNOWN"


@dataclass(frozen=True)
class Kind:
    order: str = UNKNOWN
    inner: Optional["Kind"] = None
    why: str = ""
    alias: frozenset = frozenset()
    perm_of: Optional[str] = None       # for argsort results: 'ASC'/'DESC' permutation of which expression text
    fresh: bool = False                 # newly allocated container (not aliasing any input)
    empty: bool = False                 # provably empty container (bottom element for joins)
    alts: tuple = ()                    # per-path alternatives (order, why) when paths were joined
    tags: frozenset = frozenset()       # semantic tags that survive copies only (e.g. 'closed': output of merge_sublists)

    def with_(self, **kw):
        return replace(self, **kw)


UNK = Kind()


def join(a: Optional[Kind], b: Optional[Kind]) -> Kind:
    if a is None:
        return b or UNK
    if b is None:
        return a
    if a.empty and b.empty:
        return a.with_(alias=a.alias | b.alias, fresh=a.fresh and b.fresh, tags=a.tags & b.tags)
    if a.empty and not b.empty:
        return b.with_(alias=a.alias | b.alias, fresh=a.fresh and b.fresh, tags=frozenset())
    if b.empty and not a.empty:
        return a.with_(alias=a.alias | b.alias, fresh=a.fresh and b.fresh, tags=frozenset())
    order = a.order if a.order == b.order else UNKNOWN
    if {a.order, b.order} & {UNORDERED}:
        order = UNORDERED if a.order == b.order else UNORDERED   # may be unordered on some path
    inner = join(a.inner, b.inner) if (a.inner is not None and b.inner is not None) else None
    alts = tuple(dict.fromkeys((a.alts or ((a.order, a.why),)) + (b.alts or ((b.order, b.why),))))
    return Kind(order, inner, a.why if a.why == b.why else f"{a.why} | {b.why}", a.alias | b.alias,
                a.perm_of if a.perm_of == b.perm_of else None, a.fresh and b.fresh, False, alts if len(alts) > 1 else (),
                a.tags & b.tags)


def flip(k: Kind) -> Kind:
    if k.order == ASC:
        return k.with_(order=DESC, why=k.why + " reversed")
    if k.order == DESC:
        return k.with_(order=ASC, why=k.why + " reversed")
    if k.perm_of is not None and k.perm_of.startswith(("ASC:", "DESC:")):
        o, t = k.perm_of.split(":", 1)
        return k.with_(perm_of=("DESC:" if o == "ASC" else "ASC:") + t, why=k.why + " reversed")
    return k.with_(why=k.why + " reversed")


class OrdAnalysis:
    """runs over one function; results: kinds at every Name load / recorded events"""

    def __init__(self, repo: Repo, fi: FunctionInfo, param_kinds: Dict[str, Kind] = None, depth=0, summaries=None):
        self.repo = repo
        self.fi = fi
        self.module = fi.module
        self.depth = depth
        self.summaries = summaries if summaries is not None else {}
        self.expr_kind: Dict[int, Kind] = {}          # id(ast expr) -> kind at evaluation time
        self.events: List[tuple] = []                  # ('sort', target_src, node, loop_stack) / ('pop', ...) / ('mutate', name, node, kind)
        self.returns: List[Tuple[ast.Return, Kind, Optional[List[Kind]]]] = []
        self.env: Dict[str, Kind] = {}
        self.loop_stack: List[ast.AST] = []
        for p in fi.params():
            self.env[p] = (param_kinds or {}).get(p, Kind(UNKNOWN, None, f"parameter {p}", frozenset({p})))

    # ------------------------------------------------------------------ driver
    def run(self):
        self.block(self.fi.node.body)
        return self

    def block(self, stmts):
        for s in stmts:
            self.stmt(s)

    def stmt(self, s):
        if isinstance(s, ast.Assign):
            k = self.kind(s.value)
            for t in s.targets:
                self.assign(t, k, s.value)
        elif isinstance(s, ast.AnnAssign) and s.value is not None:
            self.assign(s.target, self.kind(s.value), s.value)
        elif isinstance(s, ast.AugAssign):
            self.kind(s.value)
            if isinstance(s.target, ast.Name):
                self.env[s.target.id] = UNK.with_(why="augmented assignment")
        elif isinstance(s, ast.Expr):
            self.kind(s.value)
        elif isinstance(s, ast.Return):
            tup = None
            if s.value is not None and isinstance(s.value, ast.Tuple):
                tup = [self.kind(e) for e in s.value.elts]
            k = self.kind(s.value) if s.value is not None else UNK
            self.returns.append((s, k, tup))
        elif isinstance(s, ast.If):
            self.kind(s.test)
            env0 = dict(self.env)
            self.block(s.body)
            env1 = self.env
            self.env = dict(env0)
            self.block(s.orelse)
            env2 = self.env
            self.env = {n: join(env1.get(n), env2.get(n)) if (n in env1 and n in env2) else (env1.get(n) or env2.get(n))
                        for n in set(env1) | set(env2)}
        elif isinstance(s, (ast.For, ast.AsyncFor)):
            itk = self.kind(s.iter)
            self.bind_loop_target(s.target, s.iter, itk)
            self.loop_stack.append(s)
            env0 = dict(self.env)
            self.block(s.body)
            # second pass for loop-carried kinds
            self.env = {n: join(env0.get(n), self.env.get(n)) if n in env0 else self.env[n] for n in self.env}
            self.bind_loop_target(s.target, s.iter, itk)
            self.block(s.body)
            self.loop_stack.pop()
            self.block(s.orelse)
        elif isinstance(s, ast.While):
            self.loop_stack.append(s)
            self.block(s.body)
            self.block(s.body)
            self.loop_stack.pop()
        elif isinstance(s, (ast.With, ast.AsyncWith)):
            for it in s.items:
                k = self.kind(it.context_expr)
                if it.optional_vars is not None:
                    self.assign(it.optional_vars, k, it.context_expr)
            self.block(s.body)
        elif isinstance(s, ast.Try):
            self.block(s.body)
            for h in s.handlers:
                self.block(h.body)
            self.block(s.orelse)
            self.block(s.finalbody)
        elif isinstance(s, (ast.FunctionDef, ast.ClassDef)):
            pass
        elif isinstance(s, ast.Assert):
            self.kind(s.test)

    def bind_loop_target(self, target, iter_expr, itk: Kind):
        elem = itk.inner or UNK
        if isinstance(iter_expr, ast.Call) and isinstance(iter_expr.func, ast.Name) and iter_expr.func.id == "enumerate" and \
                isinstance(target, ast.Tuple) and len(target.elts) == 2:
            self.assign(target.elts[0], Kind(UNKNOWN, None, "enumerate index"), None)
            self.assign(target.elts[1], elem.with_(alias=itk.alias), None)
            return
        if isinstance(target, ast.Name):
            self.env[target.id] = elem.with_(alias=itk.alias) if elem is not UNK else Kind(UNKNOWN, None, "loop element", itk.alias)
        else:
            for n in ast.walk(target):
                if isinstance(n, ast.Name):
                    self.env[n.id] = UNK

    def assign(self, target, k: Kind, value_node):
        if isinstance(target, ast.Name):
            self.env[target.id] = k
        elif isinstance(target, (ast.Tuple, ast.List)):
            # tuple-returning repo function: per-component kinds
            comps = getattr(self, "_last_tuple", None)
            if comps is not None and len(comps) == len(target.elts) and value_node is not None and \
                    getattr(self, "_last_tuple_node", None) is value_node:
                for t, c in zip(target.elts, comps):
                    self.assign(t, c, None)
            else:
                for t in target.elts:
                    self.assign(t, UNK, None)
        elif isinstance(target, ast.Subscript):
            base = target.value
            bk = self.kind(base)
            root = _root(base)
            self.events.append(("setitem", src(target), target, bk, list(self.loop_stack)))
            if root and root in self.env:
                self.env[root] = self.env[root].with_(order=UNKNOWN, why=f"element store {src(target)}", tags=frozenset())
        elif isinstance(target, ast.Attribute):
            if isinstance(target.value, ast.Name) and target.value.id == "self":
                self.env["self." + target.attr] = k

    # ------------------------------------------------------------------ expressions
    def kind(self, e) -> Kind:
        k = self._kind(e)
        if e is not None:
            self.expr_kind[id(e)] = k
        return k

    def _kind(self, e) -> Kind:
        if e is None:
            return UNK
        if isinstance(e, ast.Name):
            return self.env.get(e.id, Kind(UNKNOWN, None, f"global {e.id}"))
        if isinstance(e, ast.Constant):
            return Kind(UNKNOWN, None, "constant", frozenset(), None, True)
        if isinstance(e, (ast.List, ast.Tuple)):
            inner = None
            for x in e.elts:
                kx = self.kind(x.value if isinstance(x, ast.Starred) else x)
                inner = kx if inner is None else join(inner, kx)
            order = ASC if len(e.elts) <= 1 else UNKNOWN
            return Kind(order, inner if (inner and (inner.order != UNKNOWN or inner.inner is not None)) else None, "literal",
                        frozenset(), None, True, empty=(len(e.elts) == 0))
        if isinstance(e, ast.Set):
            for x in e.elts:
                self.kind(x)
            return Kind(SETK, None, "set literal", frozenset(), None, True)
        if isinstance(e, ast.SetComp):
            self._comp_generators(e)
            return Kind(SETK, None, "set comprehension", frozenset(), None, True)
        if isinstance(e, (ast.ListComp, ast.GeneratorExp)):
            return self._listcomp(e)
        if isinstance(e, ast.Subscript):
            base = self.kind(e.value)
            sl = e.slice
            if isinstance(sl, ast.Slice):
                for x in (sl.lower, sl.upper, sl.step):
                    if x is not None:
                        self.kind(x)
                if sl.step is not None and _is_neg_one(sl.step) and sl.lower is None and sl.upper is None:
                    return flip(base)
                if sl.step is None or _is_pos_const(sl.step):
                    return base.with_(why=base.why + " sliced", fresh=True, alias=frozenset())
                return UNK
            ik = self.kind(sl)
            if isinstance(sl, ast.Tuple):
                return UNK
            # fancy indexing by a permutation / index array
            if ik.perm_of is not None:
                return Kind(UNKNOWN, None, f"indexed by {ik.perm_of}", frozenset(), "by:" + ik.perm_of)
            if ik.order in (ASC, DESC, UNORDERED) and not isinstance(sl, ast.Constant):
                return Kind(UNKNOWN, None, f"gathered with {ik.order} index ({ik.why})", frozenset(), f"idx:{ik.order}")
            # element access
            if base.inner is not None:
                return base.inner.with_(alias=base.alias)
            return Kind(UNKNOWN, None, f"element of {src(e.value)}", base.alias)
        if isinstance(e, ast.Attribute):
            if isinstance(e.value, ast.Name) and e.value.id == "self" and ("self." + e.attr) in self.env:
                return self.env["self." + e.attr]
            self.kind(e.value)
            return UNK
        if isinstance(e, ast.BinOp):
            l = self.kind(e.left)
            r = self.kind(e.right)
            if l.order == SETK or r.order == SETK:
                if isinstance(e.op, (ast.Sub, ast.BitAnd, ast.BitOr, ast.BitXor)):
                    return Kind(SETK, None, "set algebra", frozenset(), None, True)
            if isinstance(e.op, ast.Add) and l.order == r.order == UNKNOWN:
                return UNK
            if isinstance(e.op, (ast.Mult, ast.Div)) and _is_pos_const(e.right):
                return l.with_(fresh=True, alias=frozenset())       # scaling by a positive constant keeps the order kind
            if isinstance(e.op, ast.Mult) and isinstance(e.right, (ast.Name, ast.Attribute)):
                nm = src(e.right)
                if nm in POSITIVE_NAMES:
                    return l.with_(fresh=True, alias=frozenset())
            if isinstance(e.op, ast.Mult) and (_is_pos_const(e.left) or src(e.left) in POSITIVE_NAMES):
                return r.with_(fresh=True, alias=frozenset())
            return UNK
        if isinstance(e, ast.UnaryOp):
            k = self.kind(e.operand)
            if isinstance(e.op, ast.USub):
                return flip(k).with_(fresh=True, alias=frozenset())
            return UNK
        if isinstance(e, ast.IfExp):
            self.kind(e.test)
            return join(self.kind(e.body), self.kind(e.orelse))
        if isinstance(e, ast.Call):
            return self._call(e)
        if isinstance(e, ast.Compare):
            self.kind(e.left)
            for c in e.comparators:
                self.kind(c)
            return UNK
        if isinstance(e, ast.BoolOp):
            for v in e.values:
                self.kind(v)
            return UNK
        if isinstance(e, ast.Starred):
            return self.kind(e.value)
        if isinstance(e, ast.JoinedStr):
            return UNK
        if isinstance(e, ast.Dict):
            for v in e.values:
                self.kind(v)
            return Kind(UNKNOWN, None, "dict", frozenset(), None, True)
        if isinstance(e, ast.DictComp):
            return Kind(UNKNOWN, None, "dict", frozenset(), None, True)
        if isinstance(e, ast.Lambda):
            return UNK
        return UNK

    def _comp_generators(self, e):
        saved = dict(self.env)
        for g in e.generators:
            itk = self.kind(g.iter)
            self.bind_loop_target(g.target, g.iter, itk)
            for c in g.ifs:
                self.kind(c)
        return saved

    def _listcomp(self, e) -> Kind:
        saved = self._comp_generators(e)
        eltk = self.kind(e.elt)
        res = Kind(UNKNOWN, eltk if eltk.order != UNKNOWN or eltk.inner is not None else None, "comprehension", frozenset(), None, True)
        if len(e.generators) == 1:
            g = e.generators[0]
            itk = self.expr_kind.get(id(g.iter), UNK)
            # [x for x in S if ...]  /  [x for i, x in enumerate(S) if ...]   keeps the order (and order-kind) of S
            tgt = g.target
            elem_name = None
            src_kind = itk
            if isinstance(tgt, ast.Name):
                elem_name = tgt.id
            elif isinstance(tgt, ast.Tuple) and len(tgt.elts) == 2 and isinstance(g.iter, ast.Call) and \
                    isinstance(g.iter.func, ast.Name) and g.iter.func.id == "enumerate" and isinstance(tgt.elts[1], ast.Name):
                elem_name = tgt.elts[1].id
            if elem_name is not None and isinstance(e.elt, ast.Name) and e.elt.id == elem_name:
                order = itk.order if itk.order in (ASC, DESC, UNKNOWN) else (UNORDERED if itk.order in (SETK, UNORDERED) else UNKNOWN)
                res = Kind(order, itk.inner, f"order-preserving filter of {src(g.iter)}", frozenset(), None, True)
            elif itk.order in (SETK, UNORDERED):
                res = res.with_(order=UNORDERED, why=f"comprehension over unordered {src(g.iter)}")
        self.env = saved
        return res

    # ------------------------------------------------------------------ calls
    def _call(self, e: ast.Call) -> Kind:
        args = [self.kind(a.value if isinstance(a, ast.Starred) else a) for a in e.args]
        kws = {k.arg: self.kind(k.value) for k in e.keywords}
        f = e.func
        dotted = self.repo.dotted_of(self.module, f) if isinstance(f, (ast.Name, ast.Attribute)) else None
        name = f.id if isinstance(f, ast.Name) else (f.attr if isinstance(f, ast.Attribute) else None)
        a0 = args[0] if args else UNK
        # ---- builtins
        if isinstance(f, ast.Name) and f.id not in self.module.imports and f.id not in self.module.functions:
            if f.id == "sorted":
                rev = _kw_true(e, "reverse")
                if rev is None:
                    return Kind(UNKNOWN, a0.inner, "sorted(reverse=?)", frozenset(), None, True)
                if _has_kw(e, "key"):
                    return Kind(UNKNOWN, a0.inner, "sorted by key", frozenset(), "SORTED_BY_KEY", True)
                return Kind(DESC if rev else ASC, a0.inner, "sorted()", frozenset(), None, True)
            if f.id in ("list", "tuple"):
                if not args:
                    return Kind(ASC, None, "empty list", frozenset(), None, True, empty=True)
                if a0.order == SETK:
                    return Kind(UNORDERED, None, f"list({src(e.args[0])}): iteration order of a set", frozenset(), None, True)
                return a0.with_(fresh=True, alias=frozenset())
            if f.id in ("set", "frozenset"):
                return Kind(SETK, None, "set()", frozenset(), None, True)
            if f.id == "range":
                if any(isinstance(a, ast.Starred) for a in e.args):
                    return Kind(UNKNOWN, None, "range with unknown step", frozenset(), None, True)
                if len(e.args) <= 2 or _is_pos_const(e.args[2]):
                    return Kind(ASC, None, "range", frozenset(), None, True)
                return Kind(UNKNOWN, None, "range with step", frozenset(), None, True)
            if f.id == "reversed":
                return flip(a0)
            if f.id == "enumerate":
                return Kind(a0.order if a0.order in (UNORDERED, SETK) else UNKNOWN, a0.inner, "enumerate", a0.alias)
            if f.id == "zip":
                o = UNORDERED if any(a.order in (UNORDERED, SETK) for a in args) else UNKNOWN
                return Kind(o, None, "zip")
            if f.id in ("len", "int", "float", "str", "min", "max", "sum", "abs", "isinstance", "print", "bool", "any", "all"):
                return Kind(UNKNOWN, None, f.id, frozenset(), None, True)
            if f.id == "deepcopy":
                return a0.with_(fresh=True, alias=frozenset(), why=a0.why + " deep-copied")
        # ---- external library
        if dotted:
            if dotted in ("copy.deepcopy",):
                return a0.with_(fresh=True, alias=frozenset(), why=a0.why + " deep-copied")
            if dotted in ("copy.copy",):
                return a0.with_(fresh=True, why=a0.why + " shallow-copied")
            if dotted in ("numpy.sort",):
                return Kind(ASC, None, "np.sort", frozenset(), None, True)
            if dotted in ("numpy.unique",):
                if _has_kw(e, "return_index") or _has_kw(e, "return_inverse") or _has_kw(e, "return_counts"):
                    k = Kind(UNKNOWN, Kind(UNKNOWN, None, "np.unique(..., return_index)[k]", frozenset(), "UNIQUE_TUPLE"),
                             "np.unique tuple", frozenset(), "UNIQUE_TUPLE", True)
                    return k
                return Kind(ASC, None, "np.unique", frozenset(), None, True)
            if dotted in ("numpy.arange",):
                if any(isinstance(a, ast.Starred) for a in e.args) or _has_kw(e, "step"):
                    return Kind(UNKNOWN, None, "np.arange with unknown step sign (monotone, direction unknown)", frozenset(), None, True)
                return Kind(ASC, None, "np.arange", frozenset(), None, True) if len(e.args) <= 2 or _is_pos_const(e.args[2]) \
                    else Kind(UNKNOWN, None, "np.arange with unknown step sign (monotone, direction unknown)", frozenset(), None, True)
            if dotted in ("numpy.linspace",):
                return Kind(UNKNOWN, None, "np.linspace (monotone, direction unknown)", frozenset(), None, True)
            if dotted in ("numpy.array", "numpy.asarray"):
                return a0.with_(fresh=True, alias=frozenset())
            if dotted in ("numpy.argsort",):
                return Kind(UNKNOWN, None, "argsort", frozenset(), "ASC:" + src(e.args[0]), True)
            if dotted in ("numpy.where", "numpy.nonzero", "numpy.flatnonzero"):
                return Kind(UNKNOWN, Kind(ASC, None, "np.where indices"), "np.where tuple", frozenset(), None, True)
            if dotted in ("numpy.flip",):
                return flip(a0)
            if dotted == "networkx.algorithms.components.connected.connected_components" or dotted.endswith("connected_components"):
                return Kind(UNKNOWN, Kind(SETK, None, "component node set"), "connected components", frozenset(), None, True)
            r = self.repo.resolve_dotted(dotted)
            if r and r[0] == "func":
                return self._summary(r[1], args, kws, e)
        # ---- methods
        if isinstance(f, ast.Attribute):
            recv = self.expr_kind.get(id(f.value)) or self.kind(f.value)
            m = f.attr
            root = _root(f.value)
            if m == "sort":
                rev = _kw_true(e, "reverse")
                new_order = UNKNOWN if (rev is None or _has_kw(e, "key")) else (DESC if rev else ASC)
                self.events.append(("sort", src(f.value), e, new_order, list(self.loop_stack)))
                self._mutation(root, f.value, e, "sort")
                if isinstance(f.value, ast.Name):
                    self.env[f.value.id] = self.env.get(f.value.id, UNK).with_(order=new_order, why=".sort()")
                elif isinstance(f.value, ast.Subscript) and root in self.env:
                    # an element of a container was sorted in place
                    pass
                return UNK
            if m in ("append", "extend", "insert", "pop", "remove", "clear", "add", "update", "discard", "reverse"):
                self.events.append((m, src(f.value), e, args, list(self.loop_stack)))
                self._mutation(root, f.value, e, m)
                if isinstance(f.value, ast.Name) and f.value.id in self.env:
                    cur = self.env[f.value.id].with_(tags=frozenset())
                    self.env[f.value.id] = cur
                    if m == "append":
                        if cur.empty:
                            keep = a0.order != UNKNOWN or a0.inner is not None or a0.why in CONSTRUCTION_WHYS
                            self.env[f.value.id] = Kind(ASC, a0 if keep else None, "appended", cur.alias, None, cur.fresh)
                        else:
                            self.env[f.value.id] = cur.with_(order=UNKNOWN, why="appended", empty=False,
                                                             inner=(join(cur.inner, a0) if cur.inner is not None else None))
                    elif m in ("extend", "insert", "remove"):
                        self.env[f.value.id] = cur.with_(order=UNKNOWN, why=m, empty=False,
                                                         inner=(args[0].inner if (cur.empty and m == "extend" and args) else None))
                    elif m == "reverse":
                        self.env[f.value.id] = flip(cur)
                    elif m == "pop":
                        pass       # removing elements keeps the relative order
                if m == "pop":
                    return recv.inner or UNK
                return UNK
            if m == "copy":
                return recv.with_(fresh=True, why=recv.why + " copied")
            if m in ("argsort",):
                return Kind(UNKNOWN, None, "argsort", frozenset(), "ASC:" + src(f.value), True)
            if m in ("intersection", "difference", "union", "symmetric_difference"):
                return Kind(SETK, None, "set algebra", frozenset(), None, True)
            if m in ("tolist", "flatten", "ravel", "squeeze", "astype", "to_numpy"):
                return recv.with_(fresh=True)
            if m in ("keys", "values", "items"):
                return Kind(UNKNOWN, None, f"dict.{m}() (insertion order)")
            # method of a repo class?  (self.x())
            if isinstance(f.value, ast.Name) and f.value.id == "self" and self.fi.cls is not None:
                tgt = self.fi.cls.find_method(m)
                if tgt is not None:
                    return self._summary(tgt, args, kws, e, method=True)
        # ---- plain repo function
        if isinstance(f, ast.Name):
            r = self.repo.resolve_name(self.module, f.id)
            if r and r[0] == "func":
                return self._summary(r[1], args, kws, e)
            # nested function defined in this function
            for n in ast.walk(self.fi.node):
                if isinstance(n, ast.FunctionDef) and n.name == f.id and n is not self.fi.node:
                    return UNK
        return UNK

    def _mutation(self, root, target_expr, call, what):
        if root is None:
            return
        k = self.env.get(root)
        if k is None:
            return
        elem = self.expr_kind.get(id(target_expr))
        aliases = set(k.alias)
        if elem is not None:
            aliases |= set(elem.alias)
        if aliases:
            self.events.append(("mutates_alias", root, call, frozenset(aliases), what))

    def _summary(self, fi: FunctionInfo, args: List[Kind], kws: Dict[str, Kind], call: ast.Call, method=False) -> Kind:
        if self.depth >= 4:
            return UNK
        params = fi.params()
        if fi.cls is not None and params and params[0] in ("self", "cls"):
            params = params[1:]
        pk = {}
        for p, a in zip(params, args):
            pk[p] = a.with_(alias=frozenset({p}))
        for k, v in kws.items():
            if k in params:
                pk[k] = v.with_(alias=frozenset({k}))
        key = (fi.where, tuple(sorted((p, k.order, k.inner.order if k.inner else None) for p, k in pk.items())))
        if key in self.summaries:
            res = self.summaries[key]
        else:
            self.summaries[key] = (UNK, None)
            sub = OrdAnalysis(self.repo, fi, pk, self.depth + 1, self.summaries).run()
            rk = None
            tup = None
            for _, k, t in sub.returns:
                rk = k if rk is None else join(rk, k)
                if t is not None:
                    tup = t if tup is None else [join(x, y) for x, y in zip(tup, t)] if len(tup) == len(t) else None
            res = (rk or UNK, tup)
            self.summaries[key] = res
            self.sub_analyses = getattr(self, "sub_analyses", [])
            self.sub_analyses.append(sub)
        rk, tup = res
        if fi.name in TAG_FUNCTIONS:
            rk = rk.with_(tags=rk.tags | {TAG_FUNCTIONS[fi.name]})
        # map callee-parameter aliases back to caller values
        def remap(k: Kind) -> Kind:
            al = set()
            for a in k.alias:
                if a in params:
                    i = params.index(a)
                    srck = args[i] if i < len(args) else kws.get(a)
                    if srck is not None:
                        al |= set(srck.alias)
                        if i < len(call.args):
                            r = _root(call.args[i])
                            if r:
                                al.add(r)
            return k.with_(alias=frozenset(al), inner=remap(k.inner) if k.inner else None)
        if tup is not None:
            self._last_tuple = [remap(x) for x in tup]
            self._last_tuple_node = call
        return remap(rk)


POSITIVE_NAMES = {"NM2ANGSTROM"}
TAG_FUNCTIONS = {"merge_sublists": "closed"}      # result: disjoint, non-empty, sorted groups (transitive closure)
CONSTRUCTION_WHYS = ("comprehension", "appended", "extend", "literal")


def unordered_construction(k: Kind) -> bool:
    """on some path the value has UNKNOWN order and was built by a plain construction (comprehension / append / extend /
    literal) with no ordering operation; provenance through parameters or unknown calls stays inconclusive"""
    def clean(w):
        for suf in (" reversed", " sliced", " deep-copied", " copied", " shallow-copied"):
            w = w.replace(suf, "")
        return w.strip()
    alts = k.alts or ((k.order, k.why),)
    return any(o == UNKNOWN and clean(w) in CONSTRUCTION_WHYS for o, w in alts)


def _root(e):
    while isinstance(e, (ast.Attribute, ast.Subscript, ast.Call)):
        if isinstance(e, ast.Call):
            e = e.func
        else:
            e = e.value
    return e.id if isinstance(e, ast.Name) else None


def _is_neg_one(n):
    return isinstance(n, ast.UnaryOp) and isinstance(n.op, ast.USub) and isinstance(n.operand, ast.Constant) and n.operand.value == 1


def _is_pos_const(n):
    return isinstance(n, ast.Constant) and isinstance(n.value, (int, float)) and n.value > 0


def _has_kw(call, name):
    return any(k.arg == name for k in call.keywords)


def _kw_true(call, name):
    """False if kw absent or constant False, True if constant True, None if not constant"""
    for k in call.keywords:
        if k.arg == name:
            if isinstance(k.value, ast.Constant):
                return bool(k.value.value)
            return None
    return False
