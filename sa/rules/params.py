"""PARAM — an argument whose values are ignored.

A caller hands a computed selection / array to a function and the function reads nothing of it but its size
(`len(p)`, `p.shape`, `p.size`) or its presence (`p is None`): whatever the values were, the result is the same, so the
selection the caller made is silently not applied (a classic "belief" contradiction: the caller believes p matters).
Reported only when some call site in the analysed modules actually passes a non-constant argument for p.
Expected instances on the pinned tree: 0 — a positive control is evaluated on every run."""
from __future__ import annotations

import ast
from typing import List

from ..model import Repo, src

CONTROL = '''
import numpy as np
def rotations(frames=None, stop=10):
    if frames is None:
        frames = np.arange(stop)
    values = np.arange(len(frames))
    return values * 2
def caller(sel):
    return rotations(frames=sel)
def fine(frames):
    return [f * 2 for f in frames]
'''


def _size_only_params(fn: ast.FunctionDef):
    params = [a.arg for a in fn.args.posonlyargs + fn.args.args + fn.args.kwonlyargs if a.arg not in ("self", "cls")]
    parents = {}
    for n in ast.walk(fn):
        for c in ast.iter_child_nodes(n):
            parents[c] = n
    out = []
    for p in params:
        uses = [n for n in ast.walk(fn) if isinstance(n, ast.Name) and n.id == p and isinstance(n.ctx, ast.Load)]
        if not uses:
            continue          # unused parameters are common in overriding signatures; not this rule's business

        def kind(u):
            par = parents.get(u)
            if isinstance(par, ast.Call) and isinstance(par.func, ast.Name) and par.func.id == "len" and par.args and par.args[0] is u:
                return "size"
            if isinstance(par, ast.Attribute) and par.attr in ("shape", "size", "ndim"):
                return "size"
            if isinstance(par, ast.Compare) and any(isinstance(c, ast.Constant) and c.value is None for c in par.comparators + [par.left]):
                return "presence"
            return "value"
        kinds = [kind(u) for u in uses]
        # re-definitions of p other than the default initialisation under `if p is None:` make p a local: skip
        stores = [n for n in ast.walk(fn) if isinstance(n, ast.Name) and n.id == p and isinstance(n.ctx, ast.Store)]
        ok_stores = True
        for s_ in stores:
            q = parents.get(s_)
            while q is not None and not isinstance(q, ast.If):
                q = parents.get(q)
            if not (isinstance(q, ast.If) and p in {n.id for n in ast.walk(q.test) if isinstance(n, ast.Name)} and "None" in src(q.test)):
                ok_stores = False
        if "value" not in kinds and "size" in kinds and ok_stores:
            # only when the size is turned into an enumeration / array of positions (arange(len(p)), range(len(p)), zeros(len(p)) ...):
            # the function then works on positions 0..len(p)-1 where the caller meant the VALUES of p.  A helper that merely reports
            # or checks a size is not concerned.
            enum = False
            for u, k in zip(uses, kinds):
                if k != "size":
                    continue
                q = parents.get(u)
                hops = 0
                while q is not None and hops < 4 and not isinstance(q, ast.stmt):
                    if isinstance(q, ast.Call) and src(q.func).split(".")[-1] in ("arange", "range", "zeros", "ones", "empty", "full", "linspace", "eye"):
                        enum = True
                    q = parents.get(q)
                    hops += 1
            if enum:
                out.append((p, [u for u, k in zip(uses, kinds) if k == "size"]))
    return out


def analyse_trees(trees):
    """trees: [(relpath, ast.Module)] -> findings [(relpath, function name, param, example call site text)]"""
    cands = {}
    for rel, t in trees:
        for fn in [n for n in ast.walk(t) if isinstance(n, (ast.FunctionDef, ast.AsyncFunctionDef))]:
            for p, sites in _size_only_params(fn):
                cands.setdefault(fn.name, []).append((rel, fn, p, sites))
    out = []
    if not cands:
        return out
    for rel, t in trees:
        for c in [n for n in ast.walk(t) if isinstance(n, ast.Call)]:
            name = c.func.attr if isinstance(c.func, ast.Attribute) else (c.func.id if isinstance(c.func, ast.Name) else None)
            for frel, fn, p, sites in cands.get(name, []):
                params = [a.arg for a in fn.args.posonlyargs + fn.args.args]
                if params and params[0] in ("self", "cls") and isinstance(c.func, ast.Attribute):
                    params = params[1:]
                arg = None
                for kw in c.keywords:
                    if kw.arg == p:
                        arg = kw.value
                if arg is None and p in params and params.index(p) < len(c.args):
                    arg = c.args[params.index(p)]
                if arg is not None and not isinstance(arg, ast.Constant):
                    out.append((frel, fn, p, src(c)[:120], rel))
    return out


def check_params(ctx, repo: Repo, pid: str, module_names: List[str], report_modules=None):
    ctl = analyse_trees([("<control>", ast.parse(CONTROL))])
    if [(f.name, p) for _, f, p, _, _ in ctl] != [("rotations", "frames")]:
        ctx.inconclusive("PARAM", f"{pid}.param.control", "positive control of the ignored-argument rule did not match", "<control>",
                         witness=str([(f.name, p) for _, f, p, _, _ in ctl]))
        return
    trees = [(repo.module(mn).relpath, repo.module(mn).tree) for mn in module_names]
    finds = analyse_trees(trees)
    rep = {repo.module(m).relpath for m in (report_modules or module_names) if m in repo.modules}
    ctx.instance("PARAM", 1 + sum(1 for _, t in trees for n in ast.walk(t) if isinstance(n, ast.FunctionDef)))
    seen = set()
    bad = 0
    for frel, fn, p, call_txt, crel in finds:
        if frel not in rep and crel not in rep:
            continue
        k = (frel, fn.name, p)
        if k in seen:
            continue
        seen.add(k)
        bad += 1
        ctx.violate("PARAM", f"{pid}.param.ignored", f"the values of argument `{p}` are ignored: the function reads only its size / presence, so "
                    "the selection the caller passes is not applied (results are computed for other items than the requested ones)",
                    f"{frel}:{fn.name}", f"def {fn.name}(.. {p} ..)", witness=f"call site in {crel}: {call_txt}")
    if bad == 0:
        ctx.ok("PARAM", f"{pid}.param", "no function of the analysed modules ignores the values of an argument that a call site computes "
               "(positive control matched)", ", ".join(module_names)[:160])


# ---------------------------------------------------------------------------------------------------------------------
DK_CONTROL = '''
def geo(sel_property="adjacency"):
    table = {"border_len": 1, "center_distance": 2}
    if sel_property in table.keys():
        return table[sel_property]
    if sel_property == "adjacency":
        return 0
def user():
    return geo(sel_property="center_distances"), geo(sel_property="border_len")
'''


def _dispatch_keys(trees):
    """-> (handled {param: {(literal, where)}}, passed {param: {literal}})"""
    import collections
    handled = collections.defaultdict(set)
    passed = collections.defaultdict(set)
    for rel, t in trees:
        for fn in [n for n in ast.walk(t) if isinstance(n, (ast.FunctionDef, ast.AsyncFunctionDef))]:
            params = {a.arg for a in fn.args.posonlyargs + fn.args.args + fn.args.kwonlyargs}
            pos = fn.args.posonlyargs + fn.args.args
            for a, d in zip(pos[len(pos) - len(fn.args.defaults):], fn.args.defaults):
                if isinstance(d, ast.Constant) and isinstance(d.value, str):
                    passed[a.arg].add(d.value)
            for a, d in zip(fn.args.kwonlyargs, fn.args.kw_defaults):
                if isinstance(d, ast.Constant) and isinstance(d.value, str):
                    passed[a.arg].add(d.value)
            local_dicts = {}
            for a2 in ast.walk(fn):
                if isinstance(a2, ast.Assign) and len(a2.targets) == 1 and isinstance(a2.targets[0], ast.Name) and isinstance(a2.value, ast.Dict):
                    local_dicts[a2.targets[0].id] = a2.value
            for n in ast.walk(fn):
                if isinstance(n, ast.Compare) and isinstance(n.left, ast.Name) and n.left.id in params:
                    for op, c in zip(n.ops, n.comparators):
                        lits = []
                        if isinstance(op, (ast.Eq, ast.NotEq)) and isinstance(c, ast.Constant) and isinstance(c.value, str):
                            lits = [c.value]
                        elif isinstance(op, (ast.In, ast.NotIn)):
                            cc = c
                            if isinstance(cc, ast.Call) and isinstance(cc.func, ast.Attribute) and cc.func.attr == "keys":
                                cc = cc.func.value
                            if isinstance(cc, ast.Name) and cc.id in local_dicts:
                                cc = local_dicts[cc.id]
                            if isinstance(cc, ast.Dict):
                                lits = [k.value for k in cc.keys if isinstance(k, ast.Constant) and isinstance(k.value, str)]
                            elif isinstance(cc, (ast.List, ast.Tuple, ast.Set)):
                                lits = [k.value for k in cc.elts if isinstance(k, ast.Constant) and isinstance(k.value, str)]
                        for l in lits:
                            handled[n.left.id].add((l, f"{rel}:{fn.name}", rel))
                if isinstance(n, ast.Match) and isinstance(n.subject, ast.Name) and n.subject.id in params:
                    for case in n.cases:
                        for v in ast.walk(case.pattern):
                            if isinstance(v, ast.MatchValue) and isinstance(v.value, ast.Constant) and isinstance(v.value.value, str):
                                handled[n.subject.id].add((v.value.value, f"{rel}:{fn.name}", rel))
        for c in [n for n in ast.walk(t) if isinstance(n, ast.Call)]:
            for kw in c.keywords:
                if kw.arg and isinstance(kw.value, ast.Constant) and isinstance(kw.value.value, str):
                    passed[kw.arg].add(kw.value.value)
    return handled, passed


def check_dispatch_keys(ctx, repo: Repo, pid: str, module_names: List[str], report_modules=None):
    """DISPATCHKEY: a string key that a function handles for a selector parameter but that no call site (and no default) in the
    package ever passes is dead — in a table that silently falls through on a miss this is a mistyped key: the selected
    quantity is served by the fallback branch instead."""
    h, p = _dispatch_keys([("<control>", ast.parse(DK_CONTROL))])
    if {l for l, _, _ in h["sel_property"]} - p["sel_property"] != {"center_distance"}:
        ctx.inconclusive("DISPATCHKEY", f"{pid}.dispatchkey.control", "positive control of the dispatch-key rule did not match", "<control>")
        return
    trees = [(repo.module(mn).relpath, repo.module(mn).tree) for mn in module_names]
    handled, passed = _dispatch_keys(trees)
    rep = {repo.module(m).relpath for m in (report_modules or module_names) if m in repo.modules}
    n = 0
    bad = 0
    for param, hs in sorted(handled.items()):
        if not passed.get(param):
            continue        # vocabulary unknown (keys arrive dynamically / positionally)
        for lit, where, rel in sorted(hs):
            n += 1
            if lit in passed[param] or rel not in rep:
                continue
            # a key nobody passes yet is dead code, not a defect; a NEAR-MISS of a key that callers do pass is a mistyped key
            import difflib
            near = [q for q in passed[param] if difflib.SequenceMatcher(None, lit, q).ratio() >= 0.8]
            if not near:
                continue
            bad += 1
            ctx.violate("DISPATCHKEY", f"{pid}.dispatchkey", f"the key {lit!r} handled for `{param}` is never passed by any caller but is a near-miss of "
                        f"{near[0]!r}, which callers do pass: a request with the callers' spelling misses this branch and is served by the fallback",
                        where, f"{param} == {lit!r}", witness=f"handled {sorted(l for l, _, _ in hs)}; passed {sorted(passed[param])}")
    ctx.instance("DISPATCHKEY", n + 1)
    if bad == 0:
        ctx.ok("DISPATCHKEY", f"{pid}.dispatchkey", f"every string key handled for a selector parameter ({n} key/function pairs) is one that "
               "callers actually pass (positive control matched)", ", ".join(module_names)[:160])


# ---------------------------------------------------------------------------------------------------------------------------
# INDEXTRUTH: emptiness of an index array tested through its VALUES

IT_CONTROL = '''
def control(x):
    hits = np.where(x > 5)[0]
    if hits.any():
        x[hits] = 5
    sel = np.flatnonzero(x < 0)
    if len(sel) > 0:
        x[sel] = 0
    return x
'''

_INDEX_FUNCS = ("np.where", "numpy.where", "np.nonzero", "numpy.nonzero", "np.argwhere", "numpy.argwhere", "np.flatnonzero", "numpy.flatnonzero")


_IDX_FUNCS = set()      # names of analysed functions all of whose returns are index arrays (filled by _index_truth)


def _is_index_array(e, local_idx) -> bool:
    """np.where(c)[k] / np.nonzero(c)[k] / c.nonzero()[k] / np.flatnonzero(c) / np.argwhere(c), or a local name that only ever holds one"""
    if isinstance(e, ast.Name):
        return e.id in local_idx
    if isinstance(e, ast.Call) and ((isinstance(e.func, ast.Name) and e.func.id in _IDX_FUNCS) or
                                    (isinstance(e.func, ast.Attribute) and e.func.attr in _IDX_FUNCS and e.func.attr not in ("where", "nonzero"))):
        return True
    if isinstance(e, ast.Subscript) and isinstance(e.value, ast.Call):
        c = e.value
        d = ast.unparse(c.func)
        if d in _INDEX_FUNCS[:4] and len(c.args) == 1 and not c.keywords:
            return True
        if isinstance(c.func, ast.Attribute) and c.func.attr == "nonzero" and not c.args:
            return True
    if isinstance(e, ast.Call) and ast.unparse(e.func) in _INDEX_FUNCS[4:] and len(e.args) == 1:
        return True
    return False


def _index_truth(trees):
    """-> (number of index arrays seen, [(where, relpath, text, name)] value-based emptiness tests of an index array)"""
    seen, bad = 0, []
    # functions that hand out an index array (every return is one): their results are index arrays at the call sites
    _IDX_FUNCS.clear()
    for rel, tree in trees:
        for fn in [n for n in ast.walk(tree) if isinstance(n, (ast.FunctionDef, ast.AsyncFunctionDef))]:
            loc = {}
            for n in ast.walk(fn):
                if isinstance(n, ast.Assign) and len(n.targets) == 1 and isinstance(n.targets[0], ast.Name):
                    loc.setdefault(n.targets[0].id, []).append(n.value)
            li = {nm for nm, vs in loc.items() if all(_is_index_array(v, ()) for v in vs)}
            rets = [r.value for r in ast.walk(fn) if isinstance(r, ast.Return) and r.value is not None]
            if rets and all(_is_index_array(r, li) for r in rets):
                _IDX_FUNCS.add(fn.name)
    for rel, tree in trees:
        for fn in [n for n in ast.walk(tree) if isinstance(n, (ast.FunctionDef, ast.AsyncFunctionDef))]:
            stores = {}
            for n in ast.walk(fn):
                if isinstance(n, ast.Assign) and len(n.targets) == 1 and isinstance(n.targets[0], ast.Name):
                    stores.setdefault(n.targets[0].id, []).append(n.value)
                elif isinstance(n, (ast.AugAssign, ast.AnnAssign, ast.For, ast.NamedExpr)):
                    t = n.target
                    for nm in ast.walk(t):
                        if isinstance(nm, ast.Name):
                            stores.setdefault(nm.id, []).append(None)
                elif isinstance(n, ast.Assign):
                    for t in n.targets:
                        for nm in ast.walk(t):
                            if isinstance(nm, ast.Name) and isinstance(nm.ctx, ast.Store):
                                stores.setdefault(nm.id, []).append(None)
            params = {a.arg for a in fn.args.posonlyargs + fn.args.args + fn.args.kwonlyargs}
            local_idx = {nm for nm, vs in stores.items() if nm not in params and all(v is not None and _is_index_array(v, ()) for v in vs)}
            seen += sum(1 for n in ast.walk(fn) if not isinstance(n, ast.Name) and _is_index_array(n, ()))
            for n in ast.walk(fn):
                if not isinstance(n, ast.Call):
                    continue
                arg = None
                if isinstance(n.func, ast.Attribute) and n.func.attr == "any" and not n.args and not n.keywords:
                    arg = n.func.value
                elif ast.unparse(n.func) in ("np.any", "numpy.any", "any") and len(n.args) == 1 and not n.keywords:
                    arg = n.args[0]
                if arg is not None and _is_index_array(arg, local_idx):
                    bad.append((f"{rel}:{fn.name}", rel, ast.unparse(n), ast.unparse(arg)))
    return seen, bad


def check_index_truth(ctx, repo: Repo, pid: str, module_names: List[str], report_modules=None):
    """INDEXTRUTH: `idx = np.where(cond)[0]; if idx.any(): ...` asks whether some INDEX is non-zero, not whether some element
    satisfies the condition: when the only hit is element 0 the guarded statement is skipped.  The correct emptiness tests are
    idx.size / len(idx) / cond.any()."""
    s_, b_ = _index_truth([("<control>", ast.parse(IT_CONTROL))])
    if s_ != 2 or [x[2] for x in b_] != ["hits.any()"]:
        ctx.inconclusive("INDEXTRUTH", f"{pid}.indextruth.control", "positive control of the index-truthiness rule did not match", "<control>")
        return
    trees = [(repo.module(mn).relpath, repo.module(mn).tree) for mn in module_names]
    seen, bad = _index_truth(trees)
    rep = {repo.module(m).relpath for m in (report_modules or module_names) if m in repo.modules}
    bad = [b for b in bad if b[1] in rep]
    ctx.instance("INDEXTRUTH", seen + 1)
    for where, rel, text, name in bad:
        ctx.violate("INDEXTRUTH", f"{pid}.indextruth", f"`{text}` tests whether some INDEX in `{name}` is non-zero, not whether the index array is "
                    "non-empty: when the only element selected is element 0 the guarded statements are skipped for it", where, text,
                    witness=f"{name} = [0]  ->  {text} is False although one element is selected")
    if not bad:
        ctx.ok("INDEXTRUTH", f"{pid}.indextruth", f"no emptiness test of an index array ({seen} np.where/nonzero/flatnonzero index arrays in scope) goes "
               "through the index VALUES (.any()); positive control matched", ", ".join(module_names)[:160])


# ---------------------------------------------------------------------------------------------------------------------------
# ARCDOM: the argument of arccos / arcsin must be brought back into [-1, 1] after floating-point products

AD_CONTROL = '''
def control(u, v):
    a = np.arccos(np.clip(np.dot(u, v.T), -1.0, 1.0))
    b = np.arccos(np.dot(u, v.T))
    c = np.arccos(np.round(np.dot(u, v) / np.linalg.norm(u) / np.linalg.norm(v), 5))
    return a, b, c
'''

_AD_GUARDS = ("clip", "round", "around", "minimum", "maximum", "fmin", "fmax", "nan_to_num")


def _arc_domain(trees):
    """-> (number of arccos/arcsin calls, [(where, relpath, text)] calls whose argument is a floating-point product / quotient that is
    not clipped or rounded back into the domain)"""
    seen, bad = 0, []
    for rel, tree in trees:
        for fn in [n for n in ast.walk(tree) if isinstance(n, (ast.FunctionDef, ast.AsyncFunctionDef))]:
            defs = {}
            for n in ast.walk(fn):
                if isinstance(n, ast.Assign) and len(n.targets) == 1 and isinstance(n.targets[0], ast.Name):
                    defs.setdefault(n.targets[0].id, []).append(n.value)
            for n in ast.walk(fn):
                if not (isinstance(n, ast.Call) and ast.unparse(n.func) in ("np.arccos", "numpy.arccos", "np.arcsin", "numpy.arcsin",
                                                                            "math.acos", "math.asin") and len(n.args) == 1):
                    continue
                seen += 1
                # the argument with single-definition local names expanded (two levels)
                exprs = [n.args[0]]
                for _ in range(2):
                    nxt = []
                    for e in exprs:
                        nxt.append(e)
                        for nm in ast.walk(e):
                            if isinstance(nm, ast.Name) and len(defs.get(nm.id, [])) == 1:
                                nxt.append(defs[nm.id][0])
                    exprs = nxt
                guarded = any(isinstance(c, ast.Call) and ast.unparse(c.func).split(".")[-1] in _AD_GUARDS for e in exprs for c in ast.walk(e))
                product = any((isinstance(c, ast.Call) and ast.unparse(c.func).split(".")[-1] in ("dot", "inner", "einsum", "vdot", "matmul", "tensordot"))
                              or (isinstance(c, ast.BinOp) and isinstance(c.op, (ast.MatMult, ast.Div))) for e in exprs for c in ast.walk(e))
                if product and not guarded:
                    bad.append((f"{rel}:{fn.name}", rel, ast.unparse(n)))
    return seen, bad


def check_arc_domain(ctx, repo: Repo, pid: str, module_names: List[str], report_modules=None):
    """ARCDOM: cos(angle) computed as a dot product / quotient of floating-point vectors overshoots 1 by an ulp for (anti)parallel
    vectors; arccos then returns NaN (a point with itself, antipodal points).  Every such argument has to be clipped or rounded."""
    s_, b_ = _arc_domain([("<control>", ast.parse(AD_CONTROL))])
    if s_ != 3 or [x[2] for x in b_] != ["np.arccos(np.dot(u, v.T))"]:
        ctx.inconclusive("ARCDOM", f"{pid}.arcdomain.control", "positive control of the arccos-domain rule did not match", "<control>")
        return
    trees = [(repo.module(mn).relpath, repo.module(mn).tree) for mn in module_names]
    seen, bad = _arc_domain(trees)
    rep = {repo.module(m).relpath for m in (report_modules or module_names) if m in repo.modules}
    bad = [b for b in bad if b[1] in rep]
    ctx.instance("ARCDOM", seen + 1)
    for where, rel, text in bad:
        ctx.violate("ARCDOM", f"{pid}.arcdomain", "the cosine handed to arccos/arcsin is a floating-point product that is neither clipped nor rounded "
                    "into [-1, 1]: for parallel / antiparallel unit vectors it can be 1.0000000000000002 and the angle becomes NaN (NaN "
                    "entries on the diagonal / for antipodal pairs poison every matrix built from it)", where, text[:160],
                    witness="u . u = 1 + 2.2e-16 for a normalised u  ->  arccos = NaN")
    if not bad:
        ctx.ok("ARCDOM", f"{pid}.arcdomain", f"every arccos/arcsin of a product or quotient ({seen} calls in scope) is clipped or rounded into "
               "the domain first (positive control matched)", ", ".join(module_names)[:160])


# ---------------------------------------------------------------------------------------------------------------------------
# EMPTYIDX: an index array built from a FILTERED selection without an integer dtype

EI_CONTROL = '''
def control(x, regions):
    closed = np.array([k for k, r in enumerate(regions) if -1 not in r])
    x[closed] = 1.0
    kept = np.array([k for k, r in enumerate(regions) if -1 not in r], dtype=int)
    x[kept] = 2.0
    vals = np.array([v for v in x if v > 0])
    return x, vals.sum()
'''


def _empty_index(trees):
    """-> (number of filtered-selection arrays, [(where, relpath, text, name)] such arrays used as an index without an integer dtype)"""
    seen, bad = 0, []
    for rel, tree in trees:
        for fn in [n for n in ast.walk(tree) if isinstance(n, (ast.FunctionDef, ast.AsyncFunctionDef))]:
            stores = {}
            for n in ast.walk(fn):
                if isinstance(n, ast.Assign) and len(n.targets) == 1 and isinstance(n.targets[0], ast.Name):
                    stores.setdefault(n.targets[0].id, []).append(n.value)
            cands = {}
            for nm, vs in stores.items():
                if len(vs) != 1:
                    continue
                v = vs[0]
                if not (isinstance(v, ast.Call) and ast.unparse(v.func) in ("np.array", "numpy.array", "np.asarray", "numpy.asarray") and len(v.args) == 1 and
                        not any(k.arg == "dtype" for k in v.keywords)):
                    continue
                a0 = v.args[0]
                if isinstance(a0, ast.Name) and len(stores.get(a0.id, [])) == 1:
                    a0 = stores[a0.id][0]
                if isinstance(a0, ast.ListComp) and any(g.ifs for g in a0.generators):
                    seen += 1
                    cands[nm] = v
            if not cands:
                continue
            # an emptiness guard (`if len(name)` / `name.size`) anywhere in the function is taken as handling the case
            guarded = {nm for nm in cands for n in ast.walk(fn) if isinstance(n, (ast.If, ast.IfExp, ast.Assert)) and
                       any(isinstance(x, ast.Name) and x.id == nm for x in ast.walk(n.test))}
            for n in ast.walk(fn):
                if isinstance(n, ast.Subscript):
                    idx = n.slice.elts if isinstance(n.slice, ast.Tuple) else [n.slice]
                    for x in idx:
                        if isinstance(x, ast.Name) and x.id in cands and x.id not in guarded:
                            bad.append((f"{rel}:{fn.name}", rel, ast.unparse(n)[:120], x.id))
    return seen, bad


def check_empty_index(ctx, repo: Repo, pid: str, module_names: List[str], report_modules=None):
    """EMPTYIDX: `sel = np.array([k for k in ... if cond])` has dtype float64 when nothing passes the filter; `x[sel]` then raises
    IndexError (arrays used as indices must be of integer or boolean type) instead of selecting nothing."""
    s_, b_ = _empty_index([("<control>", ast.parse(EI_CONTROL))])
    if s_ != 2 or [x[3] for x in b_] != ["closed"]:
        ctx.inconclusive("EMPTYIDX", f"{pid}.emptyindex.control", "positive control of the empty-index rule did not match", "<control>")
        return
    trees = [(repo.module(mn).relpath, repo.module(mn).tree) for mn in module_names]
    seen, bad = _empty_index(trees)
    rep = {repo.module(m).relpath for m in (report_modules or module_names) if m in repo.modules}
    bad = [b for b in bad if b[1] in rep]
    ctx.instance("EMPTYIDX", seen + 1)
    done = set()
    for where, rel, text, name in bad:
        if (where, name) in done:
            continue
        done.add((where, name))
        ctx.violate("EMPTYIDX", f"{pid}.emptyindex", f"`{name}` is an array built from a filtered selection without an integer dtype and is used as an "
                    "index: when no element passes the filter it is an empty float64 array and the subscript raises IndexError (not a "
                    "deliberate ValueError, and not the empty selection that was meant)", where, text,
                    witness=f"np.array([]).dtype == float64  ->  x[{name}] raises IndexError")
    if not bad:
        ctx.ok("EMPTYIDX", f"{pid}.emptyindex", f"no index array is built from a filtered selection without an integer dtype ({seen} filtered-selection "
               "arrays in scope; positive control matched)", ", ".join(module_names)[:160])


# ---------------------------------------------------------------------------------------------------------------------------
# LENGUARD: a size guard that is weaker than what the guarded code indexes (contradiction between a stated belief and a use)

LG_CONTROL = '''
def order(p):
    if p.shape[0] == 1:
        return p
    return np.cross(p[1] - p[0], p[2] - p[0])
def fine(p):
    return p[1] - p[0]
def caller(polys):
    out = []
    for poly in polys:
        if len(poly) > 1:
            out.append(order(poly))
            out.append(fine(poly))
    return out
'''


def _len_guards(trees):
    """-> (guarded call sites examined, [(where, relpath, text, msg)]).  For a module-level function F(P, ..) that reads P[k] for
    constants k >= 0, and a call F(x) that is dominated by a guard `len(x) > c` / `>= c` / `x.shape[0] > c`: the guard admits the
    length m = smallest admitted value not excluded by F's own `if P.shape[0] == e: return`; if m <= max k the call can raise
    IndexError for exactly the sizes the guard was written to let through."""
    funcs = {}
    for rel, tree in trees:
        for fn in tree.body:
            if isinstance(fn, ast.FunctionDef) and fn.args.args:
                funcs.setdefault(fn.name, (rel, fn))
    need = {}
    for name, (rel, fn) in funcs.items():
        for pos, a in enumerate(fn.args.args):
            p = a.arg
            if any(isinstance(n, (ast.Assign, ast.AugAssign)) and any(isinstance(t, ast.Name) and t.id == p for t in
                   (n.targets if isinstance(n, ast.Assign) else [n.target])) for n in ast.walk(fn)):
                continue
            ks = [n.slice.value for n in ast.walk(fn) if isinstance(n, ast.Subscript) and isinstance(n.value, ast.Name) and n.value.id == p and
                  isinstance(n.slice, ast.Constant) and isinstance(n.slice.value, int) and not isinstance(n.slice.value, bool) and n.slice.value >= 0]
            if not ks:
                continue
            excluded = set()
            for n in ast.walk(fn):
                if isinstance(n, ast.If) and isinstance(n.test, ast.Compare) and len(n.test.ops) == 1 and isinstance(n.test.ops[0], ast.Eq) and \
                        isinstance(n.test.comparators[0], ast.Constant) and isinstance(n.test.comparators[0].value, int) and \
                        ast.unparse(n.test.left) in (f"{p}.shape[0]", f"len({p})") and any(isinstance(x, (ast.Return, ast.Raise)) for x in n.body):
                    excluded.add(n.test.comparators[0].value)
            need[(name, pos)] = (max(ks), excluded, p)
    sites, bad = 0, []
    for rel, tree in trees:
        for fn in [n for n in ast.walk(tree) if isinstance(n, (ast.FunctionDef, ast.AsyncFunctionDef))]:
            parents = {}
            for n in ast.walk(fn):
                for ch in ast.iter_child_nodes(n):
                    parents[id(ch)] = n
            for call in [n for n in ast.walk(fn) if isinstance(n, ast.Call) and isinstance(n.func, ast.Name) and n.func.id in funcs]:
                for pos, arg in enumerate(call.args):
                    if (call.func.id, pos) not in need or not isinstance(arg, ast.Name):
                        continue
                    kmax, excluded, pname = need[(call.func.id, pos)]
                    # enclosing guards on the length of this very argument (body branch only)
                    lb = None
                    node = call
                    while id(node) in parents:
                        par = parents[id(node)]
                        if isinstance(par, ast.If) and any(node is b or any(node is x for x in ast.walk(b)) for b in par.body):
                            t = par.test
                            if isinstance(t, ast.Compare) and len(t.ops) == 1 and isinstance(t.comparators[0], ast.Constant) and \
                                    isinstance(t.comparators[0].value, int) and ast.unparse(t.left) in (f"len({arg.id})", f"{arg.id}.shape[0]"):
                                c = t.comparators[0].value
                                b_ = c + 1 if isinstance(t.ops[0], ast.Gt) else c if isinstance(t.ops[0], ast.GtE) else None
                                if b_ is not None:
                                    lb = b_ if lb is None else max(lb, b_)
                        node = par
                    if lb is None:
                        continue
                    sites += 1
                    m = lb
                    while m in excluded:
                        m += 1
                    if m <= kmax:
                        bad.append((f"{rel}:{fn.name}", rel, ast.unparse(call)[:120],
                                    f"the guard admits len({arg.id}) == {m}, but {call.func.id} reads {pname}[{kmax}]"))
    return sites, bad


def check_len_guards(ctx, repo: Repo, pid: str, module_names: List[str], report_modules=None):
    """LENGUARD (contradiction rule): a call is guarded by a minimum length that the callee's constant subscripts exceed."""
    s_, b_ = _len_guards([("<control>", ast.parse(LG_CONTROL))])
    if s_ != 2 or len(b_) != 1 or "order" not in b_[0][2]:
        ctx.inconclusive("LENGUARD", f"{pid}.lenguard.control", "positive control of the length-guard rule did not match", "<control>", witness=str((s_, b_)))
        return
    trees = [(repo.module(mn).relpath, repo.module(mn).tree) for mn in module_names]
    sites, bad = _len_guards(trees)
    rep = {repo.module(m).relpath for m in (report_modules or module_names) if m in repo.modules}
    bad = [b for b in bad if b[1] in rep]
    ctx.instance("LENGUARD", sites + 1)
    for where, rel, text, msg in bad:
        ctx.violate("LENGUARD", f"{pid}.lenguard", "a size guard lets through a sequence that is shorter than what the guarded routine indexes: "
                    "for exactly the small sizes the guard was written for the call raises IndexError (not a deliberate ValueError)", where, text,
                    witness=msg)
    if not bad:
        ctx.ok("LENGUARD", f"{pid}.lenguard", f"every length-guarded call ({sites} sites) admits only sequences long enough for the constant "
               "subscripts of its callee (positive control matched)", ", ".join(module_names)[:160])


# ---------------------------------------------------------------------------------------------------------------------------
# FWDCOLLIDE: a lazily created attribute looked up through a forwarding __getattr__

FC_CONTROL = '''
class Inner:
    def __init__(self):
        self.t = 3
    def __len__(self):
        if getattr(self, "_n", None) is None:
            self._n = self.t * 2
        return self._n
class Outer:
    def __init__(self):
        self.inner = Inner()
    def __getattr__(self, name):
        return getattr(self.inner, name)
    def __len__(self):
        if getattr(self, "_n", None) is None:
            self._n = 5 * len(self.inner)
        return self._n
    def other(self):
        if getattr(self, "_m", None) is None:
            self._m = 1
        return self._m
'''


def _forward_collisions(trees):
    """-> (lazy lookups examined, [(where, relpath, text, msg)])"""
    classes = {}
    for rel, tree in trees:
        for c in [n for n in ast.walk(tree) if isinstance(n, ast.ClassDef)]:
            classes[c.name] = (rel, c)

    def stored_attrs(c, init_only=False):
        out = set()
        for f in [n for n in c.body if isinstance(n, ast.FunctionDef) and (not init_only or n.name == "__init__")]:
            for n in ast.walk(f):
                if isinstance(n, (ast.Assign, ast.AugAssign, ast.AnnAssign)):
                    for t in (n.targets if isinstance(n, ast.Assign) else [n.target]):
                        for x in ast.walk(t):
                            if isinstance(x, ast.Attribute) and isinstance(x.value, ast.Name) and x.value.id == "self" and isinstance(x.ctx, ast.Store):
                                out.add(x.attr)
        return out
    seen, bad = 0, []
    for cname, (rel, c) in classes.items():
        ga = [n for n in c.body if isinstance(n, ast.FunctionDef) and n.name == "__getattr__"]
        if not ga:
            continue
        # return getattr(self.<D>, name)
        dele = None
        for r in ast.walk(ga[0]):
            if isinstance(r, ast.Return) and isinstance(r.value, ast.Call) and isinstance(r.value.func, ast.Name) and r.value.func.id == "getattr" and \
                    len(r.value.args) >= 2 and isinstance(r.value.args[0], ast.Attribute) and isinstance(r.value.args[0].value, ast.Name) and \
                    r.value.args[0].value.id == "self":
                dele = r.value.args[0].attr
        if dele is None:
            continue
        # class of the delegate from __init__
        dcls = None
        for f in [n for n in c.body if isinstance(n, ast.FunctionDef) and n.name == "__init__"]:
            for n in ast.walk(f):
                if isinstance(n, ast.Assign) and len(n.targets) == 1 and isinstance(n.targets[0], ast.Attribute) and n.targets[0].attr == dele and \
                        isinstance(n.value, ast.Call) and isinstance(n.value.func, ast.Name) and n.value.func.id in classes:
                    dcls = n.value.func.id
        if dcls is None:
            continue
        own_init = stored_attrs(c, init_only=True)
        dele_all = stored_attrs(classes[dcls][1])
        for f in [n for n in c.body if isinstance(n, ast.FunctionDef)]:
            for n in ast.walk(f):
                if isinstance(n, ast.Call) and isinstance(n.func, ast.Name) and n.func.id in ("getattr", "hasattr") and len(n.args) >= 2 and \
                        isinstance(n.args[0], ast.Name) and n.args[0].id == "self" and isinstance(n.args[1], ast.Constant) and isinstance(n.args[1].value, str):
                    a = n.args[1].value
                    if a in own_init:
                        continue
                    seen += 1
                    if a in dele_all:
                        bad.append((f"{rel}:{cname}.{f.name}", rel, ast.unparse(n),
                                    f"{cname}.__getattr__ forwards unknown names to self.{dele} ({dcls}), and {dcls} stores an attribute `{a}` of its own"))
    return seen, bad


def check_forward_collisions(ctx, repo: Repo, pid: str, module_names: List[str], report_modules=None):
    """FWDCOLLIDE: `getattr(self, "x", None)` on an object whose class forwards unknown attributes (`__getattr__`) does not ask "have I
    set x yet": while x is unset on the object itself the lookup is answered by the delegate.  If the delegate keeps an attribute of the
    same name, the object silently adopts the delegate's value (here: a full grid taking the position grid's cached length)."""
    s_, b_ = _forward_collisions([("<control>", ast.parse(FC_CONTROL))])
    if s_ != 2 or len(b_) != 1 or "_n" not in b_[0][2]:
        ctx.inconclusive("FWDCOLLIDE", f"{pid}.fwdcollide.control", "positive control of the forwarding-collision rule did not match", "<control>", witness=str((s_, b_)))
        return
    trees = [(repo.module(mn).relpath, repo.module(mn).tree) for mn in module_names]
    seen, bad = _forward_collisions(trees)
    rep = {repo.module(m).relpath for m in (report_modules or module_names) if m in repo.modules}
    bad = [b for b in bad if b[1] in rep]
    ctx.instance("FWDCOLLIDE", seen + 1)
    for where, rel, text, msg in bad:
        ctx.violate("FWDCOLLIDE", f"{pid}.fwdcollide", "a lazily created attribute is looked up with getattr/hasattr on an object that forwards unknown "
                    "attributes to a delegate which stores an attribute of the same name: until the object has set its own value it reads the "
                    "delegate's (the result depends on which of the two objects was asked first)", where, text, witness=msg)
    if not bad:
        ctx.ok("FWDCOLLIDE", f"{pid}.fwdcollide", f"no lazily created attribute of a forwarding class ({seen} lookups) collides with an attribute of its "
               "delegate (positive control matched)", ", ".join(module_names)[:160])


# ---------------------------------------------------------------------------------------------------------------- LAZYINIT
LZ_CONTROL = '''
class P:
    def __init__(self):
        self.cells = None
        self.eager = None
        self._fill_eager()
    def _fill_eager(self):
        self.eager = [1]
    def _build(self):
        return [1, 2]
    def volumes(self):
        if self.cells is None:
            self.cells = self._build()
        return self.cells[0]
    def borders(self):
        return self.cells[1]
    def safe(self):
        self.volumes()
        return self.cells[1] + self.eager[0]
'''


def _lazy_attrs(trees):
    """-> (number of lazily filled attributes examined, [(where, relpath, text, message)])"""
    seen, bad = 0, []
    for rel, tree in trees:
        for cls in [n for n in ast.walk(tree) if isinstance(n, ast.ClassDef)]:
            methods = {m.name: m for m in cls.body if isinstance(m, (ast.FunctionDef, ast.AsyncFunctionDef))}
            init = methods.get("__init__")
            if init is None:
                continue

            def self_attr(t):
                return t.attr if isinstance(t, ast.Attribute) and isinstance(t.value, ast.Name) and t.value.id == "self" else None
            none_init = set()
            nonnone_init = set()
            for n in ast.walk(init):
                if isinstance(n, ast.Assign):
                    for t in n.targets:
                        a = self_attr(t)
                        if a is not None:
                            (none_init if isinstance(n.value, ast.Constant) and n.value.value is None else nonnone_init).add(a)
            cands = none_init - nonnone_init
            if not cands:
                continue
            calls = {name: {c.func.attr for c in ast.walk(m) if isinstance(c, ast.Call) and isinstance(c.func, ast.Attribute) and
                            isinstance(c.func.value, ast.Name) and c.func.value.id == "self"} for name, m in methods.items()}
            reach = {"__init__"}
            grow = True
            while grow:
                grow = False
                for r in list(reach):
                    for c in calls.get(r, ()):
                        if c in methods and c not in reach:
                            reach.add(c)
                            grow = True
            for attr in sorted(cands):
                fillers = {name for name, m in methods.items() if name != "__init__" and any(
                    isinstance(n, ast.Assign) and any(self_attr(t) == attr for t in n.targets) and
                    not (isinstance(n.value, ast.Constant) and n.value.value is None) for n in ast.walk(m))}
                if not fillers or fillers & reach:
                    continue            # never filled here (a subclass / the caller does) or filled during construction
                # attributes that other code of the module assigns from outside (obj.attr = ...) are not judged
                if any(isinstance(n, ast.Assign) and any(isinstance(t, ast.Attribute) and t.attr == attr and not
                                                         (isinstance(t.value, ast.Name) and t.value.id == "self") for t in n.targets)
                       for n in ast.walk(tree)):
                    continue
                ensurers = set(fillers)
                grow = True
                while grow:
                    grow = False
                    for name in methods:
                        if name not in ensurers and calls.get(name, set()) & ensurers:
                            # a method that always calls a filler first ensures as well (flow-insensitive: it calls one somewhere)
                            ensurers.add(name)
                            grow = True
                # construct-then-fill protocol: a factory (or any other code) calls the filler - or a method that runs it - on an object
                # it has just built
                def built_here(fn_node, name):
                    return any(isinstance(a, ast.Assign) and any(isinstance(t, ast.Name) and t.id == name for t in a.targets) and
                               isinstance(a.value, ast.Call) and isinstance(a.value.func, ast.Name)     # Cls(...) or a class-valued variable
                               for a in ast.walk(fn_node))
                protocol = False
                for _, t2 in trees:
                    for fn2 in [n for n in ast.walk(t2) if isinstance(n, (ast.FunctionDef, ast.AsyncFunctionDef))]:
                        for c in ast.walk(fn2):
                            if isinstance(c, ast.Call) and isinstance(c.func, ast.Attribute) and c.func.attr in ensurers and \
                                    isinstance(c.func.value, ast.Name) and c.func.value.id != "self" and built_here(fn2, c.func.value.id):
                                protocol = True
                if protocol:
                    continue
                seen += 1
                for name, m in methods.items():
                    if name in ensurers or name == "__init__" or name in reach:
                        continue
                    tests_none = any(isinstance(c, ast.Compare) and self_attr(c.left) == attr and any(isinstance(x, ast.Constant) and x.value is None
                                                                                                     for x in c.comparators) for c in ast.walk(m))
                    if tests_none:
                        continue
                    deref = [n for n in ast.walk(m) if (isinstance(n, ast.Attribute) and self_attr(n.value) == attr) or
                             (isinstance(n, ast.Subscript) and self_attr(n.value) == attr)]
                    if deref:
                        bad.append((f"{rel}:{cls.name}.{name}", rel, ast.unparse(deref[0])[:100],
                                    f"self.{attr} is None after construction and is only created by {sorted(fillers)}; {name} uses it without "
                                    "creating it or calling one of them"))
    return seen, bad


def check_lazy_attrs(ctx, repo: Repo, pid: str, module_names: List[str], report_modules=None):
    """LAZYINIT (typestate): an attribute that the constructor leaves at None and that one method creates on first use must not be
    dereferenced by a sibling method that neither creates it nor calls a method that does: whether the sibling works then depends on
    which getter was called before (AttributeError on None for one order of requests, the right value for the other)."""
    s_, b_ = _lazy_attrs([("<control>", ast.parse(LZ_CONTROL))])
    if s_ != 1 or len(b_) != 1 or "borders" not in b_[0][0]:
        ctx.inconclusive("LAZYINIT", f"{pid}.lazyinit.control", "positive control of the lazy-attribute rule did not match", "<control>", witness=str((s_, b_)))
        return
    trees = [(repo.module(mn).relpath, repo.module(mn).tree) for mn in module_names]
    seen, bad = _lazy_attrs(trees)
    rep = {repo.module(m).relpath for m in (report_modules or module_names) if m in repo.modules}
    bad = [b for b in bad if b[1] in rep]
    ctx.instance("LAZYINIT", seen + 1)
    for where, rel, text, msg in bad:
        ctx.violate("LAZYINIT", f"{pid}.lazyinit", "an attribute that is created on first use by one method is used by another method that does "
                    "not create it: the second method fails (None has no such attribute) unless the first one happened to run before, so the "
                    "outcome of a request depends on the order of requests", where, text, witness=msg)
    if not bad:
        ctx.ok("LAZYINIT", f"{pid}.lazyinit", f"{seen} lazily created attribute(s): every method that uses one creates it first or calls a method "
               "that does (positive control matched)", ", ".join(module_names)[:160])
