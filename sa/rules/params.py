"""PARAM — an argument whose values are ignored.

A caller hands a computed selection / array to a function and the function reads nothing of it but its size
(`len(p)`, `p.shape`, `p.size`) or its presence (`p is None`): whatever the values were, the result is the same, so the
selection the caller made is silently not applied (a classic "belief" contradiction: the caller believes p matters).
Reported only when some call site in the analysed modules actually passes a non-constant argument for p.
Expected instances on the pinned tree: 0 — a positive control is evaluated on every run."""
from __future__ import annotations

import ast
from typing import List

from ..model import Repo, src

CONTROL = '''
import numpy as np
def rotations(frames=None, stop=10):
    if frames is None:
        frames = np.arange(stop)
    values = np.arange(len(frames))
    return values * 2
def caller(sel):
    return rotations(frames=sel)
def fine(frames):
    return [f * 2 for f in frames]
'''


def _size_only_params(fn: ast.FunctionDef):
    params = [a.arg for a in fn.args.posonlyargs + fn.args.args + fn.args.kwonlyargs if a.arg not in ("self", "cls")]
    parents = {}
    for n in ast.walk(fn):
        for c in ast.iter_child_nodes(n):
            parents[c] = n
    out = []
    for p in params:
        uses = [n for n in ast.walk(fn) if isinstance(n, ast.Name) and n.id == p and isinstance(n.ctx, ast.Load)]
        if not uses:
            continue          # unused parameters are common in overriding signatures; not this rule's business

        def kind(u):
            par = parents.get(u)
            if isinstance(par, ast.Call) and isinstance(par.func, ast.Name) and par.func.id == "len" and par.args and par.args[0] is u:
                return "size"
            if isinstance(par, ast.Attribute) and par.attr in ("shape", "size", "ndim"):
                return "size"
            if isinstance(par, ast.Compare) and any(isinstance(c, ast.Constant) and c.value is None for c in par.comparators + [par.left]):
                return "presence"
            return "value"
        kinds = [kind(u) for u in uses]
        # re-definitions of p other than the default initialisation under `if p is None:` make p a local: skip
        stores = [n for n in ast.walk(fn) if isinstance(n, ast.Name) and n.id == p and isinstance(n.ctx, ast.Store)]
        ok_stores = True
        for s_ in stores:
            q = parents.get(s_)
            while q is not None and not isinstance(q, ast.If):
                q = parents.get(q)
            if not (isinstance(q, ast.If) and p in {n.id for n in ast.walk(q.test) if isinstance(n, ast.Name)} and "None" in src(q.test)):
                ok_stores = False
        if "value" not in kinds and "size" in kinds and ok_stores:
            out.append((p, [u for u, k in zip(uses, kinds) if k == "size"]))
    return out


def analyse_trees(trees):
    """trees: [(relpath, ast.Module)] -> findings [(relpath, function name, param, example call site text)]"""
    cands = {}
    for rel, t in trees:
        for fn in [n for n in ast.walk(t) if isinstance(n, (ast.FunctionDef, ast.AsyncFunctionDef))]:
            for p, sites in _size_only_params(fn):
                cands.setdefault(fn.name, []).append((rel, fn, p, sites))
    out = []
    if not cands:
        return out
    for rel, t in trees:
        for c in [n for n in ast.walk(t) if isinstance(n, ast.Call)]:
            name = c.func.attr if isinstance(c.func, ast.Attribute) else (c.func.id if isinstance(c.func, ast.Name) else None)
            for frel, fn, p, sites in cands.get(name, []):
                params = [a.arg for a in fn.args.posonlyargs + fn.args.args]
                if params and params[0] in ("self", "cls") and isinstance(c.func, ast.Attribute):
                    params = params[1:]
                arg = None
                for kw in c.keywords:
                    if kw.arg == p:
                        arg = kw.value
                if arg is None and p in params and params.index(p) < len(c.args):
                    arg = c.args[params.index(p)]
                if arg is not None and not isinstance(arg, ast.Constant):
                    out.append((frel, fn, p, src(c)[:120], rel))
    return out


def check_params(ctx, repo: Repo, pid: str, module_names: List[str], report_modules=None):
    ctl = analyse_trees([("<control>", ast.parse(CONTROL))])
    if [(f.name, p) for _, f, p, _, _ in ctl] != [("rotations", "frames")]:
        ctx.inconclusive("PARAM", f"{pid}.param.control", "positive control of the ignored-argument rule did not match", "<control>",
                         witness=str([(f.name, p) for _, f, p, _, _ in ctl]))
        return
    trees = [(repo.module(mn).relpath, repo.module(mn).tree) for mn in module_names]
    finds = analyse_trees(trees)
    rep = {repo.module(m).relpath for m in (report_modules or module_names) if m in repo.modules}
    ctx.instance("PARAM", 1 + sum(1 for _, t in trees for n in ast.walk(t) if isinstance(n, ast.FunctionDef)))
    seen = set()
    bad = 0
    for frel, fn, p, call_txt, crel in finds:
        if frel not in rep and crel not in rep:
            continue
        k = (frel, fn.name, p)
        if k in seen:
            continue
        seen.add(k)
        bad += 1
        ctx.violate("PARAM", f"{pid}.param.ignored", f"the values of argument `{p}` are ignored: the function reads only its size / presence, so "
                    "the selection the caller passes is not applied (results are computed for other items than the requested ones)",
                    f"{frel}:{fn.name}", f"def {fn.name}(.. {p} ..)", witness=f"call site in {crel}: {call_txt}")
    if bad == 0:
        ctx.ok("PARAM", f"{pid}.param", "no function of the analysed modules ignores the values of an argument that a call site computes "
               "(positive control matched)", ", ".join(module_names)[:160])
