"""RNG — reseed dominance.

Draw sites: np.random.{random,rand,randn,shuffle,permutation,choice,normal,uniform,randint,random_sample,...},
Rotation.random, and calls to repo functions that draw without reseeding themselves ("drawing" functions, computed as a
fixpoint).  Every draw site in a function must be dominated (CFG) by np.random.seed(<int constant>) in that function, with
only constant-count draws between the seed and the draw.  A function with an undominated draw site is itself "drawing".
"""
from __future__ import annotations

import ast
from typing import Dict, List, Tuple, Set

from ..cfg import CFG
from ..model import Repo, FunctionInfo, src

DRAW_FUNCS = {"random", "rand", "randn", "shuffle", "permutation", "choice", "normal", "uniform", "randint", "random_sample",
              "standard_normal", "sample", "ranf", "bytes", "exponential", "multivariate_normal"}


def _calls_in_stmt(stmt) -> List[ast.Call]:
    out = []
    # do not descend into nested function definitions
    st = [stmt]
    while st:
        n = st.pop()
        if isinstance(n, ast.Call):
            out.append(n)
        for c in ast.iter_child_nodes(n):
            if isinstance(c, (ast.FunctionDef, ast.AsyncFunctionDef, ast.Lambda, ast.ClassDef)) and c is not stmt:
                continue
            st.append(c)
    return out


def header_calls(node) -> List[ast.Call]:
    """calls evaluated at the CFG node of a compound statement (test / iter / context expressions only)"""
    s = node.stmt
    if isinstance(s, ast.If) or isinstance(s, ast.While):
        return _calls_in_stmt(s.test)
    if isinstance(s, (ast.For, ast.AsyncFor)):
        return _calls_in_stmt(s.iter)
    if isinstance(s, (ast.With, ast.AsyncWith)):
        out = []
        for it in s.items:
            out += _calls_in_stmt(it.context_expr)
        return out
    if isinstance(s, ast.ExceptHandler):
        return []
    if isinstance(s, (ast.FunctionDef, ast.AsyncFunctionDef, ast.ClassDef)):
        return []
    return _calls_in_stmt(s)


class RngAnalysis:
    def __init__(self, repo: Repo, functions: List[FunctionInfo]):
        self.repo = repo
        self.functions = functions
        self.by_where = {f.where: f for f in functions}
        self.drawing: Dict[str, Tuple[ast.Call, str]] = {}     # function.where -> (undominated draw site, description)
        self.sites: List[tuple] = []                           # (fi, call, kind, dominated?, seed call or None, note)
        self.seed_problems: List[tuple] = []

    def classify(self, fi: FunctionInfo, call: ast.Call):
        """'seed' | 'draw' | ('callee', FunctionInfo) | None"""
        d = self.repo.dotted_of(fi.module, call.func) if isinstance(call.func, (ast.Name, ast.Attribute)) else None
        if d:
            if d == "numpy.random.seed":
                return "seed"
            if d.startswith("numpy.random.") and d.split(".")[-1] in DRAW_FUNCS:
                return "draw"
            if d in ("scipy.spatial.transform.Rotation.random", "random.random", "random.shuffle", "random.choice", "random.sample"):
                return "draw"
            if d.startswith("numpy.random.default_rng"):
                return None
            r = self.repo.resolve_dotted(d)
            if r and r[0] == "func":
                return ("callee", r[1])
            if r and r[0] == "class":
                init = r[1].find_method("__init__")
                if init is not None:
                    return ("callee", init)
        if isinstance(call.func, ast.Name):
            r = self.repo.resolve_name(fi.module, call.func.id)
            if r and r[0] == "func":
                return ("callee", r[1])
            if r and r[0] == "class":
                init = r[1].find_method("__init__")
                if init is not None:
                    return ("callee", init)
        if isinstance(call.func, ast.Attribute) and isinstance(call.func.value, ast.Name) and call.func.value.id == "self" and fi.cls is not None:
            m = fi.cls.find_method(call.func.attr)
            if m is not None:
                return ("callee", m)
        if isinstance(call.func, ast.Attribute) and isinstance(call.func.value, ast.Call) and isinstance(call.func.value.func, ast.Name) \
                and call.func.value.func.id == "super" and fi.cls is not None:
            for c in fi.cls.mro()[1:]:
                if call.func.attr in c.methods:
                    return ("callee", c.methods[call.func.attr])
        return None

    def run(self):
        changed = True
        rounds = 0
        cfgs = {}
        while changed and rounds < 10:
            rounds += 1
            changed = False
            self.sites = []
            self.seed_problems = []
            for fi in self.functions:
                if fi.where not in cfgs:
                    cfgs[fi.where] = CFG(fi.node)
                cfg = cfgs[fi.where]
                seeds = []
                draws = []
                for node in cfg.nodes:
                    if node.stmt is None:
                        continue
                    for call in header_calls(node):
                        k = self.classify(fi, call)
                        if k == "seed":
                            sargs = list(call.args) + [k.value for k in call.keywords if k.arg == "seed"]
                            ok = len(sargs) == 1 and self._const_int(fi, sargs[0])
                            seeds.append((node, call, ok))
                            if not ok:
                                self.seed_problems.append((fi, call))
                        elif k == "draw":
                            draws.append((node, call, "direct draw " + src(call.func)))
                        elif isinstance(k, tuple) and k[1].where in self.drawing:
                            draws.append((node, call, f"call of drawing function {k[1].where}"))
                for node, call, desc in draws:
                    dom = None
                    for snode, scall, ok in seeds:
                        if ok and (cfg.dominates(snode, node) and (snode is not node or scall.lineno < call.lineno or
                                                                   (scall.lineno == call.lineno and scall.col_offset < call.col_offset))):
                            dom = scall
                    note = ""
                    if dom is not None:
                        # draws between the seed and this draw must have constant arguments
                        for n2, c2, d2 in draws:
                            if c2 is call:
                                continue
                            between = (c2.lineno, c2.col_offset) > (dom.lineno, dom.col_offset) and (c2.lineno, c2.col_offset) < (call.lineno, call.col_offset)
                            if between and not all(isinstance(a, ast.Constant) for a in c2.args):
                                note = f"a draw with data-dependent count lies between the seed and this draw: {src(c2)}"
                    self.sites.append((fi, call, desc, dom is not None and not note, dom, note))
                    if dom is None or note:
                        if fi.where not in self.drawing:
                            self.drawing[fi.where] = (call, desc + (f" ({note})" if note else ""))
                            changed = True
        return self

    def _param_const_int(self, fi, pname, depth=0) -> bool:
        """a parameter of fi that is never re-bound and that every call site in the repository (and the default, where a call omits it)
        binds to an integer constant"""
        if depth > 3:
            return False
        a = fi.node.args
        allp = a.posonlyargs + a.args + a.kwonlyargs
        names = [x.arg for x in allp]
        if pname not in names or a.vararg is not None or a.kwarg is not None:
            return False
        for n in ast.walk(fi.node):
            if isinstance(n, (ast.Assign, ast.AugAssign, ast.AnnAssign, ast.For)):
                tg = n.targets if isinstance(n, ast.Assign) else [n.target]
                if any(isinstance(x, ast.Name) and x.id == pname for t in tg for x in ast.walk(t)):
                    return False
        pos = [x.arg for x in a.posonlyargs + a.args]
        is_method = fi.cls is not None and pos and pos[0] in ("self", "cls")
        if is_method:
            pos = pos[1:]
        defaults = {}
        for x, d in zip((a.posonlyargs + a.args)[len(a.posonlyargs + a.args) - len(a.defaults):], a.defaults):
            defaults[x.arg] = d
        for x, d in zip(a.kwonlyargs, a.kw_defaults):
            if d is not None:
                defaults[x.arg] = d
        short = fi.name.split(".")[-1]
        n_sites = 0

        class _Ctx:
            pass
        for m in self.repo.modules.values():
            if m.is_snake:
                continue
            for fn in [x for x in ast.walk(m.tree) if isinstance(x, (ast.FunctionDef, ast.AsyncFunctionDef))] + [m.tree]:
                for c in ast.walk(fn):
                    if not isinstance(c, ast.Call):
                        continue
                    f_ = c.func
                    if not ((isinstance(f_, ast.Name) and f_.id == short and not is_method) or
                            (isinstance(f_, ast.Attribute) and f_.attr == short and is_method)):
                        continue
                    if fn is m.tree and any(c in list(ast.walk(g)) for g in ast.walk(m.tree) if isinstance(g, (ast.FunctionDef, ast.AsyncFunctionDef))):
                        continue            # counted with its enclosing function
                    if any(isinstance(x, ast.Starred) for x in c.args) or any(k.arg is None for k in c.keywords):
                        return False
                    n_sites += 1
                    bound = None
                    if pname in pos and pos.index(pname) < len(c.args):
                        bound = c.args[pos.index(pname)]
                    for k in c.keywords:
                        if k.arg == pname:
                            bound = k.value
                    if bound is None:
                        bound = defaults.get(pname)
                    if bound is None:
                        return False
                    ctx_ = _Ctx()
                    ctx_.module = m
                    ctx_.node = fn if fn is not m.tree else None
                    ctx_.cls = None
                    ctx_.name = getattr(fn, "name", "<module>")
                    if isinstance(bound, ast.Name) and ctx_.node is not None and bound.id in [x.arg for x in ctx_.node.args.args]:
                        return False        # passed on from another parameter: not followed further
                    if not self._const_int(ctx_, bound):
                        return False
        if n_sites == 0:
            d = defaults.get(pname)
            return d is not None and isinstance(d, ast.Constant) and isinstance(d.value, int) and not isinstance(d.value, bool)
        return True

    def _const_int(self, fi, e) -> bool:
        if isinstance(e, ast.Constant) and isinstance(e.value, int) and not isinstance(e.value, bool):
            return True
        if isinstance(e, ast.Name) and getattr(fi, "node", None) is not None and hasattr(fi, "where") and \
                e.id in [x.arg for x in fi.node.args.posonlyargs + fi.node.args.args + fi.node.args.kwonlyargs]:
            return self._param_const_int(fi, e.id)
        if isinstance(e, (ast.Name, ast.Attribute)):
            try:
                v = self.repo.const_value(fi.module, e)
                return isinstance(v, int) and not isinstance(v, bool)
            except KeyError:
                return False
        if isinstance(e, ast.BinOp) and isinstance(e.op, (ast.Add, ast.Sub, ast.Mult, ast.FloorDiv, ast.Mod, ast.Pow, ast.LShift, ast.BitOr,
                                                          ast.BitXor, ast.BitAnd)):
            return self._const_int(fi, e.left) and self._const_int(fi, e.right)
        if isinstance(e, ast.UnaryOp) and isinstance(e.op, (ast.UAdd, ast.USub)):
            return self._const_int(fi, e.operand)
        if isinstance(e, ast.Call) and isinstance(e.func, ast.Name) and e.func.id == "int" and len(e.args) == 1 and not e.keywords:
            return self._const_int(fi, e.args[0])
        return False
