"""TRUTH — index array in Boolean context.

A value whose kind is *index-array* (np.nonzero(..)[0], np.where(cond)[0], np.flatnonzero, np.argwhere, or a repo function
returning one) used as the test of if/while/not/and/or/ternary.  The array [0] is false although an index was found.
Silent: len(x), x.size, len(x) > 0, x.shape[0], subscripting, .any()/.all() are NOT silent (they test values too).
"""
from __future__ import annotations

import ast
from typing import Dict, List, Optional, Tuple

from ..model import Repo, FunctionInfo, src

INDEX_PRODUCERS = {"numpy.nonzero", "numpy.where", "numpy.flatnonzero", "numpy.argwhere"}


def _is_index_expr(repo: Repo, fi: FunctionInfo, e, env, depth=0) -> Optional[str]:
    """returns a description if e evaluates to an index array"""
    if isinstance(e, ast.Name):
        return env.get(e.id)
    if isinstance(e, ast.Subscript) and isinstance(e.slice, ast.Constant) and e.slice.value == 0 and isinstance(e.value, ast.Call):
        d = repo.dotted_of(fi.module, e.value.func)
        if d in ("numpy.nonzero", "numpy.where") and len(e.value.args) == 1:
            return f"{d.split('.')[-1]}(...)[0]"
    if isinstance(e, ast.Call):
        d = repo.dotted_of(fi.module, e.func)
        if d in ("numpy.flatnonzero", "numpy.argwhere"):
            return d.split(".")[-1]
        callee = None
        if d:
            r = repo.resolve_dotted(d)
            if r and r[0] == "func":
                callee = r[1]
        elif isinstance(e.func, ast.Name):
            r = repo.resolve_name(fi.module, e.func.id)
            if r and r[0] == "func":
                callee = r[1]
        if callee is not None and depth < 3:
            if returns_index_array(repo, callee, depth + 1):
                return f"{callee.name}(...) (returns the indices of matching rows)"
    return None


_cache: Dict[str, bool] = {}


def returns_index_array(repo: Repo, fi: FunctionInfo, depth=0) -> bool:
    key = fi.where
    if key in _cache:
        return _cache[key]
    _cache[key] = False
    rets = [n for n in ast.walk(fi.node) if isinstance(n, ast.Return) and n.value is not None]
    res = bool(rets) and all(_is_index_expr(repo, fi, r.value, {}, depth) for r in rets)
    _cache[key] = res
    return res


INDEX_SCALAR_PRODUCERS = {"numpy.argmax", "numpy.argmin", "numpy.nanargmax", "numpy.nanargmin", "numpy.searchsorted"}


def _index_values_expr(repo: Repo, fi: FunctionInfo, e) -> Optional[str]:
    """expression whose ELEMENTS (or value) are positions/indices that may legitimately be 0"""
    if isinstance(e, ast.Call):
        d = repo.dotted_of(fi.module, e.func) or ""
        if d in INDEX_SCALAR_PRODUCERS:
            return d.split(".")[-1] + "(...)"
        if isinstance(e.func, ast.Attribute) and e.func.attr in ("argmax", "argmin", "index", "find") and not d.startswith("numpy."):
            return "." + e.func.attr + "(...)"
        if isinstance(e.func, ast.Name) and e.func.id == "enumerate" and e.args:
            return None
    return _is_index_expr(repo, fi, e, {})


def index_truthiness_in_comprehensions(repo: Repo, fi: FunctionInfo) -> List[tuple]:
    """{.. for d, o in enumerate(<index values>) if o}  /  [.. for o in <index values> if o]  : an index used as truth value"""
    out = []
    for n in ast.walk(fi.node):
        if isinstance(n, (ast.ListComp, ast.SetComp, ast.DictComp, ast.GeneratorExp)):
            for g in n.generators:
                it = g.iter
                names = []
                prod = None
                if isinstance(it, ast.Call) and isinstance(it.func, ast.Name) and it.func.id == "enumerate" and it.args:
                    prod = _index_values_expr(repo, fi, it.args[0])
                    if isinstance(g.target, ast.Tuple) and len(g.target.elts) == 2 and isinstance(g.target.elts[1], ast.Name):
                        names = [g.target.elts[1].id]
                elif isinstance(it, ast.Call) and isinstance(it.func, ast.Name) and it.func.id == "zip":
                    for k, a in enumerate(it.args):
                        pr = _index_values_expr(repo, fi, a)
                        if pr and isinstance(g.target, ast.Tuple) and k < len(g.target.elts) and isinstance(g.target.elts[k], ast.Name):
                            prod = pr
                            names.append(g.target.elts[k].id)
                else:
                    prod = _index_values_expr(repo, fi, it)
                    if isinstance(g.target, ast.Name):
                        names = [g.target.id]
                if not prod or not names:
                    continue
                for c in g.ifs:
                    tests = [c]
                    if isinstance(c, ast.BoolOp):
                        tests = list(c.values)
                    for t in tests:
                        if isinstance(t, ast.UnaryOp) and isinstance(t.op, ast.Not):
                            t = t.operand
                        if isinstance(t, ast.Name) and t.id in names:
                            out.append((n, t.id, prod, "comprehension filter"))
        if isinstance(n, ast.For):
            it = n.iter
            prod = None
            names = []
            if isinstance(it, ast.Call) and isinstance(it.func, ast.Name) and it.func.id == "enumerate" and it.args:
                prod = _index_values_expr(repo, fi, it.args[0])
                if isinstance(n.target, ast.Tuple) and len(n.target.elts) == 2 and isinstance(n.target.elts[1], ast.Name):
                    names = [n.target.elts[1].id]
            else:
                prod = _index_values_expr(repo, fi, it)
                if isinstance(n.target, ast.Name):
                    names = [n.target.id]
            if prod and names:
                for m in ast.walk(n):
                    if isinstance(m, (ast.If, ast.IfExp)):
                        t = m.test
                        if isinstance(t, ast.UnaryOp) and isinstance(t.op, ast.Not):
                            t = t.operand
                        if isinstance(t, ast.Name) and t.id in names:
                            out.append((m, t.id, prod, "if"))
    return out


def boolean_uses(repo: Repo, fi: FunctionInfo) -> Tuple[List[tuple], int]:
    """-> (violations [(node, name, producer, context)], number of index-array definitions seen)"""
    _cache.clear()
    env: Dict[str, str] = {}
    out = []
    ndefs = 0

    def test_expr(e, ctxname, node):
        if isinstance(e, ast.Name) and e.id in env:
            out.append((node, e.id, env[e.id], ctxname))
        elif isinstance(e, ast.UnaryOp) and isinstance(e.op, ast.Not):
            test_expr(e.operand, "not", node)
        elif isinstance(e, ast.BoolOp):
            for v in e.values:
                test_expr(v, "and/or", node)
        elif isinstance(e, ast.Call) and isinstance(e.func, ast.Attribute) and e.func.attr in ("any", "all") and \
                isinstance(e.func.value, ast.Name) and e.func.value.id in env:
            out.append((node, e.func.value.id, env[e.func.value.id], f".{e.func.attr}()"))
        elif isinstance(e, ast.Call) and isinstance(e.func, ast.Name) and e.func.id == "bool" and e.args:
            test_expr(e.args[0], "bool()", node)
        else:
            d = _is_index_expr(repo, fi, e, env)
            if d and not isinstance(e, ast.Name):
                out.append((node, src(e), d, ctxname))

    def walk(stmts):
        nonlocal ndefs
        for s in stmts:
            if isinstance(s, ast.Assign) and len(s.targets) == 1 and isinstance(s.targets[0], ast.Name):
                d = _is_index_expr(repo, fi, s.value, env)
                if d:
                    env[s.targets[0].id] = d
                    ndefs += 1
                else:
                    env.pop(s.targets[0].id, None)
            for n in ast.walk(s) if not isinstance(s, (ast.If, ast.While, ast.For, ast.With, ast.Try)) else []:
                if isinstance(n, ast.IfExp):
                    test_expr(n.test, "ternary", n)
            if isinstance(s, ast.If):
                test_expr(s.test, "if", s)
                walk(s.body)
                walk(s.orelse)
            elif isinstance(s, ast.While):
                test_expr(s.test, "while", s)
                walk(s.body)
            elif isinstance(s, (ast.For, ast.AsyncFor)):
                walk(s.body)
                walk(s.orelse)
            elif isinstance(s, (ast.With, ast.AsyncWith)):
                walk(s.body)
            elif isinstance(s, ast.Try):
                walk(s.body)
                for h in s.handlers:
                    walk(h.body)
                walk(s.orelse)
                walk(s.finalbody)
            elif isinstance(s, ast.Assert):
                test_expr(s.test, "assert", s)
    walk(fi.node.body)
    # dict / list comprehensions:  {k: f(x)[0] ...} are subscripts -> silent
    return out, ndefs
