"""E4 — Snakefile front end.

workflow/run_grid, run_sqra, run_msm, ... are Python with `rule NAME:` blocks.  A line-based splitter recognises the
rule blocks and their sections; keyword sections (input/output/params/log/...) are parsed as the argument list of a
synthetic call, `run:` bodies are dedented and parsed as Python, everything else at top level is ordinary Python.
`rules.X.output.Y` is resolved to rule X's keyword Y.
"""
from __future__ import annotations

import ast
import os
import re
import textwrap
from dataclasses import dataclass, field
from typing import Dict, List, Optional

from .model import AnalysisError, set_parents

RULE_RE = re.compile(r"^(rule|checkpoint)\s+(\w+)\s*:\s*$")
SECTION_RE = re.compile(r"^(\s+)(\w+)\s*:\s*(.*)$")
KEYWORD_SECTIONS = {"input", "output", "params", "log", "benchmark", "resources", "wildcard_constraints", "shadow",
                    "threads", "priority", "conda", "message", "group", "retries"}


@dataclass
class Rule:
    name: str
    file: str
    lineno: int
    sections: Dict[str, "Section"] = field(default_factory=dict)

    def kw(self, section: str, name: str) -> Optional[ast.expr]:
        s = self.sections.get(section)
        if s is None:
            return None
        return s.keywords.get(name)

    @property
    def run(self) -> Optional[ast.Module]:
        s = self.sections.get("run")
        return s.body if s else None


@dataclass
class Section:
    name: str
    lineno: int
    text: str
    args: List[ast.expr] = field(default_factory=list)
    keywords: Dict[str, ast.expr] = field(default_factory=dict)
    body: Optional[ast.Module] = None     # for run:


@dataclass
class SnakeFile:
    path: str
    relpath: str
    rules: Dict[str, Rule]
    toplevel: ast.Module            # python outside rules
    includes: List[str]
    source: str


def parse_snakefile(path: str, relpath: str) -> SnakeFile:
    with open(path, "r", encoding="utf-8") as f:
        source = f.read()
    lines = source.split("\n")
    n = len(lines)
    rules: Dict[str, Rule] = {}
    top_lines: List[str] = [""] * n
    includes: List[str] = []
    i = 0
    while i < n:
        line = lines[i]
        m = RULE_RE.match(line)
        if m:
            rule = Rule(m.group(2), relpath, i + 1)
            i += 1
            # collect block: all following lines that are blank, comments or indented
            block = []
            while i < n and (lines[i].strip() == "" or lines[i][0] in " \t" or lines[i].lstrip().startswith("#") and
                             lines[i][0] in " \t"):
                block.append((i, lines[i]))
                i += 1
            _parse_rule_block(rule, block, relpath)
            rules[rule.name] = rule
            continue
        inc = re.match(r"^include\s*:\s*[\"'](.+)[\"']", line)
        if inc:
            includes.append(inc.group(1))
            i += 1
            continue
        if re.match(r"^(configfile|workdir|localrules|ruleorder|report|pepfile|wildcard_constraints)\s*:", line):
            i += 1
            # skip its indented continuation
            while i < n and lines[i][:1] in (" ", "\t") and lines[i].strip():
                i += 1
            continue
        top_lines[i] = line
        i += 1
    try:
        top = ast.parse("\n".join(top_lines), filename=path)
    except SyntaxError as e:
        raise AnalysisError(f"snake front end: cannot parse top-level python of {relpath}: {e}")
    set_parents(top)
    return SnakeFile(path, relpath, rules, top, includes, source)


def _parse_rule_block(rule: Rule, block, relpath):
    # find the section indent: first non-blank, non-comment, non-docstring line
    sec_indent = None
    for _, l in block:
        if l.strip() and not l.lstrip().startswith("#"):
            sec_indent = len(l) - len(l.lstrip())
            break
    if sec_indent is None:
        return
    k = 0
    nb = len(block)
    cur = None
    cur_lines: List[str] = []
    cur_line0 = 0
    in_doc = False

    def flush():
        nonlocal cur, cur_lines
        if cur is not None:
            _finish_section(rule, cur, cur_line0, cur_first, cur_lines, relpath)
        cur = None
        cur_lines = []

    cur_first = ""
    while k < nb:
        ln, l = block[k]
        stripped = l.strip()
        indent = len(l) - len(l.lstrip())
        if cur is None or (stripped and indent == sec_indent and not stripped.startswith("#")):
            # docstring directly under rule?
            if stripped.startswith(('"""', "'''", '"', "'")) and indent == sec_indent:
                flush()
                q = stripped[:3] if stripped[:3] in ('"""', "'''") else stripped[0]
                rest = stripped[len(q):]
                if q in rest:
                    k += 1
                    continue
                k += 1
                while k < nb and q not in block[k][1]:
                    k += 1
                k += 1
                continue
            m = SECTION_RE.match(l)
            if m and len(m.group(1)) == sec_indent:
                flush()
                cur = m.group(2)
                cur_first = m.group(3)
                cur_line0 = ln + 1
                cur_lines = []
                k += 1
                continue
            if not stripped or stripped.startswith("#"):
                k += 1
                continue
            raise AnalysisError(f"snake front end: unexpected line in rule {rule.name} ({relpath}:{ln + 1}): {l!r}")
        cur_lines.append(l)
        k += 1
    flush()


def _finish_section(rule: Rule, name, line0, first, lines, relpath):
    text = (first + "\n" if first.strip() else "") + "\n".join(lines)
    sec = Section(name, line0, text)
    if name == "run":
        code = textwrap.dedent("\n".join(lines))
        try:
            sec.body = ast.parse(code)
        except SyntaxError as e:
            raise AnalysisError(f"snake front end: run body of rule {rule.name} in {relpath} does not parse: {e}")
        # shift line numbers so they point into the snakefile
        for node in ast.walk(sec.body):
            if hasattr(node, "lineno"):
                node.lineno += line0
        set_parents(sec.body)
    elif name == "shell":
        pass
    else:
        body = textwrap.dedent("\n".join(lines))
        if first.strip():
            body = first.strip() + ("\n" + body if body.strip() else "")
        # strip comment-only lines
        call = "_f_(\n" + body + "\n)"
        try:
            tree = ast.parse(call)
            c = tree.body[0].value
            sec.args = list(c.args)
            sec.keywords = {k.arg: k.value for k in c.keywords if k.arg}
            set_parents(tree)
        except SyntaxError as e:
            raise AnalysisError(f"snake front end: section {name} of rule {rule.name} in {relpath} does not parse: {e}")
    rule.sections[name] = sec


class Workflows:
    """all snakefiles of /repo/workflow with include resolution"""

    def __init__(self, root: str):
        self.root = root
        self.files: Dict[str, SnakeFile] = {}
        wf = os.path.join(root, "workflow")
        if not os.path.isdir(wf):
            raise AnalysisError("anchor vanished: workflow directory")
        for fn in sorted(os.listdir(wf)):
            p = os.path.join(wf, fn)
            if os.path.isfile(p) and "." not in fn:
                with open(p, "r", encoding="utf-8", errors="replace") as f:
                    head = f.read()
                if re.search(r"^rule\s+\w+\s*:", head, re.M):
                    self.files[fn] = parse_snakefile(p, os.path.join("workflow", fn))

    def file(self, name) -> SnakeFile:
        if name not in self.files:
            raise AnalysisError(f"anchor vanished: workflow/{name}")
        return self.files[name]

    def rules_visible_from(self, name) -> Dict[str, Rule]:
        out: Dict[str, Rule] = {}
        seen = set()

        def rec(fn):
            if fn in seen or fn not in self.files:
                return
            seen.add(fn)
            for inc in self.files[fn].includes:
                rec(os.path.basename(inc))
            out.update(self.files[fn].rules)
        rec(name)
        return out

    def resolve_rules_ref(self, from_file: str, expr: ast.expr):
        """rules.X.output.Y  ->  (rule X, 'output', 'Y', expr of Y) or None"""
        parts = []
        e = expr
        while isinstance(e, ast.Attribute):
            parts.append(e.attr)
            e = e.value
        if not (isinstance(e, ast.Name) and e.id == "rules"):
            return None
        parts.reverse()
        if len(parts) != 3:
            return None
        rname, sec, key = parts
        rules = self.rules_visible_from(from_file)
        if rname not in rules:
            raise AnalysisError(f"snake: rules.{rname} not found from {from_file}")
        r = rules[rname]
        v = r.kw(sec, key)
        if v is None:
            raise AnalysisError(f"snake: rules.{rname}.{sec}.{key} not found")
        return r, sec, key, v
