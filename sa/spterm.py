"""helpers to look inside abstract sparse-matrix objects produced by the kernel interpreter"""
from __future__ import annotations

from .values import *
from . import transfer as T

CONVERSIONS = ("tocoo", "tocsr", "tocsc", "copy", "astype", "todok", "tolil")


def origin_of(v):
    """ObjV sparse / frozen sparse term -> origin term"""
    if isinstance(v, ObjV) and v.ext == "sparse":
        return v.origin
    if isinstance(v, Term) and v.op == "sparse":
        return v.args[0]
    return None


def underlying(v):
    """strip format conversions: returns (origin term, object or None)"""
    obj = v if isinstance(v, ObjV) else None
    o = origin_of(v)
    while isinstance(o, Term) and o.op in CONVERSIONS and o.args:
        nxt = o.args[0]
        if isinstance(nxt, ObjV) and nxt.ext == "sparse":
            obj = nxt
            o = nxt.origin
        elif isinstance(nxt, Term) and nxt.op == "sparse":
            obj = None
            o = nxt.args[0]
        else:
            break
    return o, obj


def show(v, depth=0, maxdepth=7) -> str:
    """readable expansion of a value with sparse objects opened"""
    if depth > maxdepth:
        return "..."
    if isinstance(v, ObjV) and v.ext == "sparse":
        st = ""
        if v.stores:
            st = " stores=[" + "; ".join(f"{vstr(i)[:120]} {a or '='} {vstr(x)[:80]}" for _, i, x, a, _ in v.stores) + "]"
        return f"SP#{v.uid}<" + show(v.origin, depth + 1, maxdepth) + st + ">"
    if isinstance(v, Term):
        if v.op == "sparse":
            ob = v.kw.get("obj")
            st = ""
            if isinstance(ob, ObjV) and ob.stores:
                st = " stores=[" + "; ".join(f"{vstr(i)[:400]} {a or '='} {vstr(x)[:160]}" for _, i, x, a, _ in ob.stores[:v.kw['stores'].v]) + "]"
            return "frozen<" + show(v.args[0], depth + 1, maxdepth) + st + ">"
        a = [show(x, depth + 1, maxdepth) for x in v.args]
        a += [f"{k}={show(x, depth + 1, maxdepth)}" for k, x in v.kw.items() if k not in ("data_at_call", "obj")]
        return f"{v.op}(" + ", ".join(a) + ")"
    if isinstance(v, TupleV):
        return "(" + ", ".join(show(x, depth + 1, maxdepth) for x in v.items) + ")"
    if isinstance(v, ListV):
        return vstr(v)
    if isinstance(v, DictV):
        return "{" + ", ".join(f"{k}: {show(x, depth + 1, maxdepth)}" for k, x in v.d.items()) + "}"
    return vstr(v)
