"""Transfer table of the kernel interpreter: abstract meaning of the builtins / numpy / scipy.sparse vocabulary that the
anchored kernels use.  A callable absent from this table yields Top (INCONCLUSIVE), never a violation; a callable that
is present but *different* from what an obligation needs yields a different term, hence a violation with a witness.
"""
from __future__ import annotations

import ast
from fractions import Fraction
from typing import Optional, List, Dict

from .alg import Poly
from .values import *

TABLE_VERSION = "transfer-table v1 (builtins, numpy, scipy.sparse subset)"

ELEMENTWISE_UFUNCS = {
    "numpy.exp": "exp", "numpy.exp2": "exp2", "numpy.expm1": "expm1", "numpy.log": "log", "numpy.sqrt": "sqrt",
    "numpy.square": "square", "numpy.abs": "abs", "numpy.absolute": "abs", "numpy.sign": "sign",
    "numpy.sin": "sin", "numpy.cos": "cos", "numpy.arccos": "arccos", "numpy.arcsin": "arcsin",
    "numpy.floor": "floor", "numpy.ceil": "ceil", "numpy.reciprocal": "reciprocal", "numpy.negative": "negative",
    "numpy.isnan": "isnan", "numpy.isfinite": "isfinite", "numpy.log10": "log10", "numpy.tan": "tan",
    "math.exp": "exp", "math.sqrt": "sqrt", "math.log": "log", "math.floor": "floor", "math.ceil": "ceil",
    "math.sin": "sin", "math.cos": "cos", "math.acos": "arccos", "numpy.rint": "rint", "numpy.trunc": "trunc",
    "builtins.abs": "abs",
}

SPARSE_CTORS = {"scipy.sparse.coo_array", "scipy.sparse.coo_matrix", "scipy.sparse.csr_array", "scipy.sparse.csr_matrix",
                "scipy.sparse.csc_array", "scipy.sparse.csc_matrix"}


def ufunc_poly(name: str, p: Poly) -> Poly:
    if name == "square":
        return p * p
    if name == "sqrt":
        return p ** Fraction(1, 2) if p.is_monomial() else Poly.app("sqrt", p)
    if name == "reciprocal":
        return p.inverse()
    if name == "negative":
        return -p
    if name == "abs" and p.is_const():
        return Poly.const(abs(p.as_const()))
    if name in ("floor", "ceil", "rint", "trunc") and p.is_const() and p.as_const().denominator == 1:
        return p
    return Poly.app(name, p)


def apply_ufunc(interp, name: str, v: V) -> V:
    if _is_pw(v):
        return Term("piecewise", [TupleV([p.items[0], p.items[1], apply_ufunc(interp, name, p.items[2])]) for p in v.args], v.kw)
    if isinstance(v, Num):
        return Num(ufunc_poly(name, v.p)) if name not in ("isnan", "isfinite") else CondV("opaque", name, v)
    if isinstance(v, Grid):
        return Grid(v.dims, apply_ufunc(interp, name, v.elem))
    if isinstance(v, Top):
        return v
    if isinstance(v, (Term, ObjV, ListV, TupleV)):
        return Term(name, [v])
    if isinstance(v, CondV):
        return Term(name, [v])
    return Top(f"{name} of {type(v).__name__}")


# ---------------------------------------------------------------------------------------------------------------------
# sparse objects
def new_sparse(origin: Term, pattern, chain=(), shape=None, data=None, fmt="coo") -> ObjV:
    o = ObjV(ext="sparse", origin=origin)
    o.attrs["__pattern__"] = Const(pattern)
    o.attrs["__chain__"] = Const(tuple(chain))
    o.attrs["__fmt__"] = Const(fmt)
    if shape is not None:
        o.attrs["shape"] = shape
    if data is not None:
        o.attrs["data"] = data
    return o


def is_sparse(v) -> bool:
    return isinstance(v, ObjV) and v.ext == "sparse"


def sparse_entry_dim(interp, o: ObjV):
    pat = o.attrs["__pattern__"].v
    chain = o.attrs["__chain__"].v
    key = ("entries", pat, chain)
    idx = ("sym", f"e<{pat}:{'.'.join(chain) or 'raw'}>")
    return idx, Poly.app("nnz", str(pat), ".".join(chain))


def sparse_attr(interp, o: ObjV, name: str):
    if name in o.attrs:
        return o.attrs[name]
    idx, ext = sparse_entry_dim(interp, o)
    pat = o.attrs["__pattern__"].v
    chain = ".".join(o.attrs["__chain__"].v)
    if name == "data":
        d = Grid([[(idx, ext)]], Num(Poly.app("data", f"sp#{o.uid}", Poly.atom(idx))))
        o.attrs["data"] = d
        return d
    if name in ("row", "col"):
        return Grid([[(idx, ext)]], Num(Poly.app(name, str(pat), chain, Poly.atom(idx))))
    if name in ("indptr", "indices"):
        return Term("sp." + name, [_freeze_sparse(o)])
    if name == "shape":
        return Term("shape", [o])
    if name == "T":
        return sparse_convert(interp, o, "transpose")
    if name == "nnz":
        return Num(ext)
    return None


def chain_after(chain: tuple, conv: str) -> tuple:
    if conv in ("tocsr", "tocsc"):
        return (conv,)
    if conv == "tocoo":
        return chain if (chain and chain[-1] == "tocoo") else chain + ("tocoo",)
    if conv in ("copy", "astype"):
        return chain
    return chain + (conv,)


def sparse_convert(interp, o: ObjV, conv: str) -> ObjV:
    # scipy: X.tocoo() on a coo array, X.tocsr() on a csr array, X.tocsc() on a csc array return X itself (copy=False)
    if conv in ("tocoo", "tocsr", "tocsc") and o.attrs["__fmt__"].v == conv[2:]:
        o.log.append(("alias_conversion", conv))
        return o
    chain = chain_after(o.attrs["__chain__"].v, conv)
    n = new_sparse(Term(conv, [o], {"data_at_call": o.attrs.get("data", Const(None))}), o.attrs["__pattern__"].v, chain,
                   o.attrs.get("shape"), fmt=conv[2:] if conv.startswith("to") else o.attrs["__fmt__"].v)
    if "data" in o.attrs:
        d = o.attrs["data"]
        if isinstance(d, Grid) and len(d.dims) == 1 and len(d.dims[0]) == 1:
            idx_old = d.dims[0][0][0]
            idx_new, ext_new = sparse_entry_dim(interp, n)
            # the values are the same multiset, possibly re-ordered: rename entry index (value at the same *entry*)
            n.attrs["data"] = Grid([[(idx_new, ext_new)]], subst(d.elem, {idx_old: Poly.atom(idx_new)}))
        else:
            n.attrs["data"] = d
    return n


# ---------------------------------------------------------------------------------------------------------------------
def arange(interp, n: Poly, start: Poly = None, hint="i") -> Grid:
    idx = interp.fresh_idx(hint)
    p = Poly.atom(idx)
    if start is not None:
        p = p + start
    return Grid([[(idx, n)]], Num(p))


def vec(interp, name: str, length: Poly, hint="i") -> Grid:
    idx = interp.fresh_idx(hint)
    return Grid([[(idx, length)]], Num(Poly.app("at", name, Poly.atom(idx))))


def mat(interp, name: str, nrows: Poly, ncols: Poly) -> Grid:
    i = interp.fresh_idx("r")
    j = interp.fresh_idx("c")
    return Grid([[(i, nrows)], [(j, ncols)]], Num(Poly.app("at2", name, Poly.atom(i), Poly.atom(j))))


def to_grid(interp, v: V) -> Optional[Grid]:
    """convert list-like value to a Grid when its skeleton is a pure loop nest"""
    if isinstance(v, Grid):
        return v
    if isinstance(v, ListV):
        items = v.items
        fl = flat_elems(items)
        if fl is not None:
            if len(fl) == 0:
                idx = interp.fresh_idx("i")
                return Grid([[(idx, Poly.const(0))]], Num(0))
            if all(isinstance(x, Num) for x in fl):
                idx = interp.fresh_idx("i")
                if len(fl) == 1:
                    return Grid([[(idx, Poly.const(1))]], fl[0])
                return Grid([[(idx, Poly.const(len(fl)))]], Term("select", [Num(Poly.atom(idx))] + fl))
            return None
        axes = []
        cur = items
        while len(cur) == 1 and isinstance(cur[0], Loop):
            axes.append((cur[0].idx, cur[0].extent))
            cur = cur[0].items
        if len(cur) == 1 and isinstance(cur[0], Elem) and axes:
            el = cur[0].value
            if isinstance(el, Grid):
                return Grid([axes] + el.dims, el.elem)
            return Grid([axes], el)
        # concatenation of segments -> Term cat
        segs = []
        for it in items:
            if isinstance(it, Elem):
                idx = interp.fresh_idx("i")
                segs.append(Grid([[(idx, Poly.const(1))]], it.value))
            elif isinstance(it, Loop) and len(it.items) == 1 and isinstance(it.items[0], Elem) and \
                    not isinstance(it.items[0].value, Grid):
                segs.append(Grid([[(it.idx, it.extent)]], it.items[0].value))
            else:
                return None
        return cat(interp, segs)
    if isinstance(v, TupleV):
        return to_grid(interp, ListV([Elem(x) for x in v.items]))
    return None


def cat(interp, segs: List[Grid]):
    """concatenate 1-D grids: canonical piecewise sequence"""
    segs = [s for s in segs if not (s.dim_len(0) == Poly.const(0))]
    if len(segs) == 1:
        return segs[0]
    idx = interp.fresh_idx("i")
    total = Poly.const(0)
    pieces = []
    for s in segs:
        if s.ndim != 1 or len(s.dims[0]) != 1:
            return None
        sidx, sext = s.dims[0][0]
        if _is_pw(s.elem):
            sub = segments(interp, s)
            if sub is not None:
                for st2, ln2, fn2 in sub:
                    pieces.append(TupleV([Num(total + st2), Num(ln2), fn2(Poly.atom(idx) - total - st2)]))
                total = total + sext
                continue
        # element at global index idx  (idx in [total, total+sext)) = s.elem[sidx := idx - total]
        pieces.append(TupleV([Num(total), Num(sext), subst(s.elem, {sidx: Poly.atom(idx) - total})]))
        total = total + sext
    return Grid([[(idx, total)]], Term("piecewise", pieces, {"idx": Num(Poly.atom(idx))}))


def segments(interp, g: Grid):
    """1-D grid -> list of (start Poly, length Poly, value-fn(local index Poly) -> V); piecewise elements are split,
    shifted selectors (idx = axis + c) are re-based and clipped where that is decidable; None if not decidable"""
    if g.ndim != 1 or len(g.dims[0]) != 1:
        return None
    ax, ext = g.dims[0][0]
    el = g.elem
    if not _is_pw(el):
        return [(Poly.const(0), ext, (lambda j, el=el, ax=ax: subst(el, {ax: j})))]
    sel = el.kw["idx"].p
    c = sel - Poly.atom(ax)
    if Poly.atom(ax) in c.atoms() or ax in c.all_atoms_deep():
        return None             # selector is not `axis + offset`

    def _le(x, y):
        d_ = (y - x)
        if d_.is_const():
            return d_.as_const() >= 0
        return interp.decide(CondV("cmp", "<=", x, y))
    out = []
    pos = Poly.const(0)
    for p in el.args:
        st, ln, val = p.items[0].p, p.items[1].p, p.items[2]
        # piece applies for axis index in [st - c, st - c + ln), clipped to [0, ext)
        lo = st - c
        hi = lo + ln
        if _le(hi, Poly.const(0)) is True or _le(ext, lo) is True:
            continue                                    # entirely outside
        if _le(Poly.const(0), lo) is True:
            pass
        elif _le(lo, Poly.const(0)) is True:
            lo = Poly.const(0)
        else:
            return None
        if _le(hi, ext) is True:
            pass
        elif _le(ext, hi) is True:
            hi = ext
        else:
            return None
        ln2 = hi - lo
        if ln2.is_const() and ln2.as_const() <= 0:
            continue
        if not ln2.is_const():
            e_ = interp.decide(CondV("cmp", "<=", ln2, Poly.const(0)))
            if e_ is True:
                continue
            if e_ is None and interp.decide(CondV("cmp", "<=", Poly.const(0), ln2)) is not True:
                return None             # (a piece whose length is provably >= 0, possibly 0, is kept)
        if _is_pw(val):
            sub = segments(interp, Grid([[(ax, ext)]], val))
            if sub is None:
                return None
            # restrict nested pieces to [lo, hi): only support full containment decided by constants
            for s2, l2, f2 in sub:
                a = s2
                b = s2 + l2
                # intersection of the nested piece [a, b) with the enclosing piece [lo, hi): every comparison must be decidable
                def _le(x, y):
                    d_ = (y - x)
                    if d_.is_const():
                        return d_.as_const() >= 0
                    return interp.decide(CondV("cmp", "<=", x, y))
                c1 = _le(a, lo)
                na = lo if c1 is True else (a if _le(lo, a) is True else None)
                c2 = _le(hi, b)
                nb = hi if c2 is True else (b if _le(b, hi) is True else None)
                if na is None or nb is None:
                    return None
                l3 = nb - na
                if l3.is_const() and l3.as_const() <= 0:
                    continue
                if not l3.is_const():
                    e_ = interp.decide(CondV("cmp", "<=", l3, Poly.const(0)))
                    if e_ is True:
                        continue
                    if e_ is None and interp.decide(CondV("cmp", "<=", Poly.const(0), l3)) is not True:
                        return None
                shift = na - a
                out.append((na, l3, (lambda j, f2=f2, shift=shift: f2(j + shift))))
            continue
        out.append((lo, ln2, (lambda j, val=val, ax=ax, lo=lo: subst(val, {ax: j + lo}))))
    return out


def simplify_pw(interp, g: Grid) -> Grid:
    """a 1-D grid whose piecewise element has a single applicable piece on the whole extent -> plain element"""
    if isinstance(g, Grid) and g.ndim == 1 and len(g.dims[0]) == 1 and _is_pw(g.elem):
        segs = segments(interp, g)
        ax = g.dims[0][0][0]
        if segs is not None and len(segs) == 1 and segs[0][0].is_zero() and segs[0][1] == g.dims[0][0][1]:
            return Grid(g.dims, segs[0][2](Poly.atom(ax)))
        if segs is not None and g.elem.kw["idx"].p != Poly.atom(ax):
            # shifted selector: re-base the pieces on the axis index
            a = Poly.atom(ax)
            return Grid(g.dims, Term("piecewise", [TupleV([Num(st), Num(ln), fn(a - st)]) for st, ln, fn in segs], {"idx": Num(a)}))
    return g


def ceildiv(interp, a: Poly, b: Poly) -> Poly:
    """ceil(a/b) for integer polys; exact simplifications only"""
    if b == Poly.const(1):
        return a
    if a.is_const() and b.is_const() and b.as_const() > 0:
        q = a.as_const() / b.as_const()
        return Poly.const(-((-q.numerator) // q.denominator))
    if a == b:
        return Poly.const(1)
    # a = b + 1 with b >= 1  ->  2   (window slice [k : k+tau+1 : tau])
    d = a - b
    if d == Poly.const(1) and b.is_monomial() and all(at in interp.ge1_atoms for at in b.atoms()) and \
            b.single_term()[0] >= 1:
        return Poly.const(2)
    return Poly.app("ceildiv", a, b)


def grid_len(v) -> Optional[Poly]:
    return value_len(v)


# ---------------------------------------------------------------------------------------------------------------------
def binop(interp, op, l: V, r: V, node=None) -> Optional[V]:
    name = type(op).__name__
    if isinstance(l, BoundExt):
        l = Term("attr." + l.name, [l.recv])
    if isinstance(r, BoundExt):
        r = Term("attr." + r.name, [r.recv])
    # filtered index arrays (np.nonzero idiom) and their column views
    from . import farray as _fa
    if _fa.is_farray(l) or _fa.is_farray(r) or (isinstance(l, Term) and l.op == "colvec") or (isinstance(r, Term) and r.op == "colvec"):
        fr = _fa.binop(interp, op, l, r, node)
        if fr is not None:
            return fr
    # python list algebra
    if isinstance(l, ListV) and isinstance(r, ListV) and isinstance(op, ast.Add):
        out = interp.new_list(copy_items(l.items) + copy_items(r.items), l.kind)
        return out
    if isinstance(l, ListV) and isinstance(r, Num) and isinstance(op, ast.Mult) and l.kind == "list":
        return _list_repeat(interp, l, r.p)
    if isinstance(r, ListV) and isinstance(l, Num) and isinstance(op, ast.Mult) and r.kind == "list":
        return _list_repeat(interp, r, l.p)
    if isinstance(l, ListV) and isinstance(r, ListV) and l.kind == "set" and r.kind == "set":
        return Term({"Sub": "set_difference", "BitAnd": "set_intersection", "BitOr": "set_union"}.get(name, "set_op"), [l, r])
    if isinstance(l, TupleV) and isinstance(r, TupleV) and isinstance(op, ast.Add):
        return TupleV(l.items + r.items)
    if isinstance(l, Const) and isinstance(r, Const):
        try:
            if isinstance(op, ast.Add):
                return Const(l.v + r.v)
            if isinstance(op, ast.Mod) and isinstance(l.v, str):
                return Const(l.v % r.v)
        except Exception:
            return Top("constant arithmetic")
    if isinstance(l, Const) and isinstance(l.v, str):
        return Term("str_op", [l, r])
    if isinstance(l, Const) and isinstance(l.v, bool):
        l = Num(int(l.v))
    if isinstance(r, Const) and isinstance(r.v, bool):
        r = Num(int(r.v))
    # conditions
    if isinstance(op, (ast.BitAnd, ast.BitOr)) and (isinstance(l, (CondV, Grid)) and isinstance(r, (CondV, Grid))):
        kind = "and" if isinstance(op, ast.BitAnd) else "or"

        def f(a, b):
            a = a if isinstance(a, CondV) else CondV("truthy", a)
            b = b if isinstance(b, CondV) else CondV("truthy", b)
            return CondV(kind, a, b)
        return interp.elementwise2(l, r, f, kind)
    if isinstance(op, ast.BitXor) and isinstance(l, (CondV, Grid, Term)) and isinstance(r, (CondV, Grid, Term)):
        return Term("xor", [l, r])
    # sparse
    if is_sparse(l) or is_sparse(r):
        return _sparse_binop(interp, op, l, r)
    if isinstance(l, ObjV) and l.ext == "ndarray":
        l = ndarray_value(interp, l)
    if isinstance(r, ObjV) and r.ext == "ndarray":
        r = ndarray_value(interp, r)
    # lists in numeric context behave like arrays only through numpy; python list * float is an error -> Top
    if isinstance(l, ListV) or isinstance(r, ListV):
        gl = to_grid(interp, l) if isinstance(l, ListV) else l
        gr = to_grid(interp, r) if isinstance(r, ListV) else r
        if (isinstance(l, ListV) and isinstance(r, Grid)) or (isinstance(r, ListV) and isinstance(l, Grid)):
            if gl is not None and gr is not None:
                l, r = gl, gr
            else:
                return Top("list/array arithmetic with unstructured list")
        else:
            return Top(f"{name} between list and {type(r).__name__ if isinstance(l, ListV) else type(l).__name__}")
    if isinstance(l, (Num, Grid)) and isinstance(r, (Num, Grid)):
        def f(a, b):
            if isinstance(a, Top):
                return a
            if isinstance(b, Top):
                return b
            if isinstance(a, Num) and isinstance(b, Num):
                return Num(num_binop(op, a.p, b.p))
            if isinstance(a, Const) and isinstance(a.v, bool):
                return f(Num(int(a.v)), b)
            if isinstance(b, Const) and isinstance(b.v, bool):
                return f(a, Num(int(b.v)))
            pw = _piecewise_binop(f, a, b, interp)
            if pw is not None:
                return pw
            if isinstance(a, CondV) or isinstance(b, CondV):
                return Term(name.lower(), [a, b])
            return Term(name.lower(), [a, b])
        return interp.elementwise2(l, r, f, name)
    if (_is_pw(l) and isinstance(r, Num)) or (_is_pw(r) and isinstance(l, Num)) or (_is_pw(l) and _is_pw(r)):
        def f2(a, b):
            if isinstance(a, Num) and isinstance(b, Num):
                return Num(num_binop(op, a.p, b.p))
            pw = _piecewise_binop(f2, a, b, interp)
            return pw if pw is not None else Term(name.lower(), [a, b])
        pw = _piecewise_binop(f2, l, r, interp)
        if pw is not None:
            return pw
    if _is_pw(l) and isinstance(r, Grid) or _is_pw(r) and isinstance(l, Grid):
        def f3(a, b):
            if isinstance(a, Num) and isinstance(b, Num):
                return Num(num_binop(op, a.p, b.p))
            pw = _piecewise_binop(f3, a, b, interp)
            return pw if pw is not None else Term(name.lower(), [a, b])
        return interp.elementwise2(l, r, f3, name)
    if isinstance(l, (Term, Num, Grid, TupleV)) and isinstance(r, (Term, Num, Grid, TupleV)):
        return Term(name.lower(), [l, r])
    if isinstance(l, (CondV,)) or isinstance(r, (CondV,)):
        return Term(name.lower(), [l, r])
    return None


def _is_pw(x):
    return isinstance(x, Term) and x.op == "piecewise"


def _pw_refine(interp, a, b):
    """two piecewise terms over the same selector -> lists of pieces on a common refinement, or None"""
    if vkey(a.kw["idx"]) != vkey(b.kw["idx"]):
        return None
    def bounds(t):
        return [(p.items[0].p, p.items[0].p + p.items[1].p, p.items[2]) for p in t.args]
    A, B = bounds(a), bounds(b)
    pts = []
    for lo, hi, _ in A + B:
        for x in (lo, hi):
            if not any(x == y for y in pts):
                pts.append(x)
    # insertion sort with decidable comparisons
    order = []
    for x in pts:
        pos = None
        for k, y in enumerate(order):
            d = interp.decide(CondV("cmp", "<=", x, y))
            if d is True:
                pos = k
                break
            if d is None:
                d2 = interp.decide(CondV("cmp", "<=", y, x))
                if d2 is not True:
                    return None
        if pos is None:
            order.append(x)
        else:
            order.insert(pos, x)
    def value_on(P, lo, hi):
        for plo, phi, v in P:
            c1 = interp.decide(CondV("cmp", "<=", plo, lo))
            c2 = interp.decide(CondV("cmp", "<=", hi, phi))
            if c1 is True and c2 is True:
                return v
        return None
    out = []
    for lo, hi in zip(order, order[1:]):
        va, vb = value_on(A, lo, hi), value_on(B, lo, hi)
        if va is None or vb is None:
            return None
        out.append((lo, hi - lo, va, vb))
    return out


def _piecewise_binop(f, a, b, interp=None):
    """distribute elementwise arithmetic over piecewise sequences (same breakpoints, or piecewise with a plain value)"""
    if _is_pw(a) and isinstance(b, Num):
        return Term("piecewise", [TupleV([p.items[0], p.items[1], f(p.items[2], b)]) for p in a.args], a.kw)
    if _is_pw(b) and isinstance(a, Num):
        return Term("piecewise", [TupleV([p.items[0], p.items[1], f(a, p.items[2])]) for p in b.args], b.kw)
    if _is_pw(a) and _is_pw(b) and len(a.args) == len(b.args) and vkey(a.kw["idx"]) == vkey(b.kw["idx"]) and \
            all(vkey(x.items[0]) == vkey(y.items[0]) and vkey(x.items[1]) == vkey(y.items[1]) for x, y in zip(a.args, b.args)):
        return Term("piecewise", [TupleV([x.items[0], x.items[1], f(x.items[2], y.items[2])]) for x, y in zip(a.args, b.args)], a.kw)
    if _is_pw(a) and _is_pw(b) and interp is not None:
        ref = _pw_refine(interp, a, b)
        if ref is not None:
            return Term("piecewise", [TupleV([Num(lo), Num(ln), f(va, vb)]) for lo, ln, va, vb in ref], a.kw)
    return None


def num_binop(op, a: Poly, b: Poly) -> Poly:
    if isinstance(op, ast.Add):
        return a + b
    if isinstance(op, ast.Sub):
        return a - b
    if isinstance(op, ast.Mult):
        return a * b
    if isinstance(op, ast.Div):
        return a / b
    if isinstance(op, ast.Pow):
        return a ** b
    if isinstance(op, ast.FloorDiv):
        if a.is_const() and b.is_const() and b.as_const() != 0:
            q = a.as_const() / b.as_const()
            return Poly.const(q.numerator // q.denominator)
        q = a / b
        if all(c.denominator == 1 for c in q.terms.values()) and all(e > 0 and e.denominator == 1 for m in q.terms for _, e in m):
            return q    # exact polynomial division (e.g. (n*k)//k)
        return Poly.app("floordiv", a, b)
    if isinstance(op, ast.Mod):
        if a.is_const() and b.is_const() and b.as_const() != 0:
            x, y = a.as_const(), b.as_const()
            return Poly.const(x - y * ((x / y).numerator // (x / y).denominator))
        return Poly.app("mod", a, b)
    if isinstance(op, ast.MatMult):
        return Poly.app("matmul", a, b)
    return Poly.top(f"operator {type(op).__name__}")


def _list_repeat(interp, l: ListV, n: Poly) -> ListV:
    if n.is_const() and n.as_const().denominator == 1 and 0 <= n.as_const() <= 8 and flat_elems(l.items) is not None \
            and len(l.items) <= 8:
        items = []
        for _ in range(int(n.as_const())):
            items.extend(copy_items(l.items))
        return interp.new_list(items)
    return interp.new_list([Rep(copy_items(l.items), n)])


def _sparse_binop(interp, op, l, r):
    name = type(op).__name__
    if is_sparse(l) and is_sparse(r):
        if isinstance(op, (ast.Add, ast.Sub)):
            return new_sparse(Term("spadd" if isinstance(op, ast.Add) else "spsub", [_freeze_sparse(l), _freeze_sparse(r)]),
                              f"sum#{l.uid}+{r.uid}", ("sum",), l.attrs.get("shape") or r.attrs.get("shape"), fmt="csr")
        if isinstance(op, ast.MatMult):
            # A @ B  is  A.dot(B)
            return new_sparse(Term("spdot", [_freeze_sparse(l), _freeze_sparse(r)]), f"dot#{l.uid}", ("dot",), None, fmt="csr")
        return new_sparse(Term("sp" + name.lower(), [_freeze_sparse(l), _freeze_sparse(r)]), f"op#{l.uid},{r.uid}", ("op",))
    sp, other, left = (l, r, True) if is_sparse(l) else (r, l, False)
    if isinstance(other, Num) and isinstance(op, (ast.Mult, ast.Div)) and (left or isinstance(op, ast.Mult)):
        d = sparse_attr(interp, sp, "data")
        n = new_sparse(Term("scale", [_freeze_sparse(sp), other], {"op": Const(name)}), sp.attrs["__pattern__"].v,
                       sp.attrs["__chain__"].v, sp.attrs.get("shape"), fmt=sp.attrs["__fmt__"].v)
        if isinstance(d, Grid):
            idx_old = d.dims[0][0][0]
            idx_new, ext_new = sparse_entry_dim(interp, n)
            el = subst(d.elem, {idx_old: Poly.atom(idx_new)})
            if isinstance(el, Num):
                el = Num(el.p * other.p if isinstance(op, ast.Mult) else el.p / other.p)
            else:
                el = Term(name.lower(), [el, other])
            n.attrs["data"] = Grid([[(idx_new, ext_new)]], el)
        return n
    if isinstance(other, (Grid, Term)) and isinstance(op, ast.Mult):
        return new_sparse(Term("spscale_array", [_freeze_sparse(sp), other]), f"scaled#{sp.uid}", ("scaled",), sp.attrs.get("shape"))
    return Top(f"sparse {name} with {type(other).__name__}")


def _freeze_sparse(o: ObjV) -> Term:
    """immutable snapshot of a sparse object (its construction term and its data vector at this moment)"""
    return Term("sparse", [o.origin if o.origin is not None else Const(None)],
                {"data": o.attrs.get("data", Const(None)), "pattern": o.attrs["__pattern__"], "chain": o.attrs["__chain__"],
                 "uid": Const(o.uid), "stores": Const(len(o.stores)), "obj": o})


freeze_sparse = _freeze_sparse


def ndarray_value(interp, o: ObjV) -> V:
    """an ndarray under construction used as a value: Grid of its fill if nothing was stored, else symbolic"""
    if not o.stores and "fill" in o.attrs and "dims" in o.attrs:
        dims = o.attrs["dims"]
        return Grid([[(interp.fresh_idx("z"), e)] for e in dims.items_p], o.attrs["fill"])
    return Term("ndarray", [Const(o.uid)])


# ---------------------------------------------------------------------------------------------------------------------
def subscript(interp, base: V, idx: V, node) -> Optional[V]:
    from . import farray as _fa
    if _fa.is_farray(base) and base.kind == "array" and isinstance(idx, TupleV) and len(idx.items) == 2:
        a, b = idx.items
        full = lambda x: isinstance(x, Term) and x.op == "slice" and all(isinstance(y, Const) and y.v is None for y in x.args)
        newax = lambda x: (isinstance(x, Const) and x.v is None) or (isinstance(x, ExtV) and x.dotted == "numpy.newaxis")
        if full(a) and newax(b):
            return Term("colvec", [base])
    if isinstance(base, ObjV) and base.ext == "ndarray" and isinstance(idx, TupleV) and len(idx.items) == 2 and all(_fa.is_farray(x) for x in idx.items):
        base = ndarray_value(interp, base)
    if isinstance(base, Grid) and isinstance(idx, TupleV) and len(idx.items) == 2 and all(_fa.is_farray(x) for x in idx.items):
        fr = _fa.fancy2(interp, base, idx.items[0], idx.items[1])
        if fr is not None:
            return fr
    if isinstance(base, Grid):
        return grid_subscript(interp, base, idx, node)
    if isinstance(base, ListV):
        return list_subscript(interp, base, idx, node)
    if isinstance(base, TupleV):
        if isinstance(idx, Num) and idx.p.is_const():
            k = int(idx.p.as_const())
            if -len(base.items) <= k < len(base.items):
                return base.items[k]
            interp.raises.append(("IndexError", interp.guards(), f"{interp.where()}: tuple index {k} of {len(base.items)}"))
            return Top("tuple index out of range")
        if isinstance(idx, Term) and idx.op == "slice":
            lo, hi, st = idx.args
            try:
                s = slice(*[None if (isinstance(x, Const) and x.v is None) else int(x.p.as_const()) for x in (lo, hi, st)])
                return TupleV(base.items[s])
            except Exception:
                n_ = Poly.const(len(base.items))
                none = lambda x: isinstance(x, Const) and x.v is None
                # [:hi] with hi >= len  /  [-k:] with k >= len : the whole tuple
                if none(st) and none(lo) and isinstance(hi, Num) and interp.decide(CondV("cmp", ">=", hi.p, n_)) is True:
                    return base
                if none(st) and none(hi) and isinstance(lo, Num) and interp.decide(CondV("cmp", "<=", lo.p, -n_)) is True:
                    return base
                return Top("tuple slice")
        return Term("item", [base, idx])
    if isinstance(base, Const) and isinstance(base.v, (tuple, str)):
        if isinstance(idx, Num) and idx.p.is_const():
            try:
                x = base.v[int(idx.p.as_const())]
                from .interp import _const_to_v
                return _const_to_v(x)
            except IndexError:
                interp.raises.append(("IndexError", interp.guards(), f"{interp.where()}: constant index"))
                return Top("index out of range")
        if isinstance(idx, Term) and idx.op == "slice" and isinstance(base.v, str):
            try:
                s = slice(*[None if (isinstance(x, Const) and x.v is None) else int(x.p.as_const()) for x in idx.args])
                return Const(base.v[s])
            except Exception:
                return Top("str slice")
        return Term("item", [base, idx])
    if isinstance(base, DictV):
        if isinstance(idx, Const) and idx.v in base.d and dict_stores_exact(base):
            return base.d[idx.v]
        if isinstance(idx, TupleV) and dict_key(idx) is not None and dict_key(idx) in base.d and dict_stores_exact(base):
            return base.d[dict_key(idx)]
        if isinstance(idx, Const) and not base.stores and getattr(base, "complete", False) and idx.v not in base.d:
            interp.raises.append(("KeyError", interp.guards(), f"{interp.where()}: key {idx.v!r} is not in the table"))
            return Top("missing dictionary key")
        return Term("dictitem", [Const(id(base)), idx], {"dict": base})
    if isinstance(base, Num):
        # indexing a scalar symbol: treat the symbol as array-valued (elementwise semantics)
        return Term("item", [base, idx])
    if isinstance(base, Term):
        return Term("item", [base, idx])
    if isinstance(base, ObjV):
        if base.ext == "sparse":
            return Term("spitem", [_freeze_sparse(base), idx])
        if base.ext == "ndarray":
            dims = base.attrs.get("dims")
            if dims is not None and isinstance(idx, Grid) and idx.ndim == 1 and isinstance(idx.elem, Num) and len(dims.items_p) == 2:
                c = interp.fresh_idx("c")
                return Grid(idx.dims + [[(c, dims.items_p[1])]],
                            Num(Poly.app("arrat", f"arr#{base.uid}", idx.elem.p, Poly.atom(c))))
            return Term("arritem", [Const(base.uid), idx], {"arr": base})
        if base.cls is not None:
            gi = base.cls.find_method("__getitem__")
            if gi is not None:
                return interp.call_function(gi, [idx], {}, self_obj=base, node=node)
        return Term("item", [base, idx])
    if isinstance(base, ExtV):
        return ExtV(base.dotted)       # typing generics etc.
    return None


def _slice_bounds(idx: Term):
    lo, hi, st = idx.args
    f = lambda x: None if (isinstance(x, Const) and x.v is None) else (x.p if isinstance(x, Num) else "?")
    return f(lo), f(hi), f(st)


def dict_key(idx):
    """hashable dictionary key of a constant, or of a tuple of constants / closed numbers (memo keys like (name, flag, factor)); None if
    the key is not closed"""
    if isinstance(idx, Const):
        try:
            hash(idx.v)
            return idx.v
        except TypeError:
            return None
    if isinstance(idx, TupleV) and idx.items and all(isinstance(x, (Const, Num)) for x in idx.items) and not contains_top(idx):
        return ("<tuple>", vkey(idx))
    return None


def dict_stores_exact(d) -> bool:
    """every store into the dictionary so far had a closed key and was executed unconditionally (no undecided guard, no loop):
    the key -> value table kept in `d.d` is then the exact content"""
    return all(dict_key(i_) is not None and not any(getattr(f_, "kind", None) in ("loop", "guard") for f_ in fr_)
               for (fr_, i_, v_, a_, st_) in d.stores)


def _band_bounds(lo: V, hi: V, n=None):
    """(a, b) with  seq[lo:hi] == the elements j of seq with a <= j < b : lo is `max(0, a)` (or absent), hi is `b` / `min(len, b)` (or
    absent); None when the bounds have another form (a bare symbolic lower bound may be negative: python then counts from the end)"""
    def clamp(v, op):
        if isinstance(v, Const) and v.v is None:
            return None, True
        if isinstance(v, Term) and v.op == op and all(isinstance(a, Num) for a in v.args):
            rest = [a.p for a in v.args if not (op == "max" and a.p.is_const() and a.p.as_const() <= 0)]
            if op == "max" and len(rest) == 1 and len(rest) < len(v.args):
                return rest[0], True
            if op == "min":
                # min(len, b): the length operand only repeats python's clipping
                rest = [a.p for a in v.args if not (n is not None and a.p == n)]
                if len(rest) == 1 and len(rest) < len(v.args):
                    return rest[0], True
        return None, False
    a, oka = clamp(lo, "max")
    if oka is not True:
        return None
    if isinstance(hi, Num):
        if hi.p.is_const() and hi.p.as_const() < 0:
            return None
        return a, hi.p
    b, okb = clamp(hi, "min")
    if okb is True:
        return a, b
    return None


def _norm_bound(b: Poly, n: Poly, default: Poly, interp=None):
    """python slice bound normalisation for symbolic n: negative constants count from the end"""
    if b is None:
        return default
    if b.is_const() and b.as_const() < 0:
        return n + b
    if interp is not None and not b.is_const() and interp.decide(CondV("cmp", "<", b, Poly.const(0))) is True:
        return n + b
    # -(expr) with a syntactically negative single term => from the end
    if not b.is_const() and all(c < 0 for c in b.terms.values()):
        return n + b
    return b


def grid_subscript(interp, g: Grid, idx: V, node) -> V:
    if isinstance(idx, TupleV):
        items = idx.items
    else:
        items = [idx]
    dims = list(g.dims)
    elem = g.elem
    out_dims = []
    k = 0
    for it in items:
        if isinstance(it, ExtV) and it.dotted == "numpy.newaxis" or isinstance(it, Const) and it.v is None:
            out_dims.append([(interp.fresh_idx("u"), Poly.const(1))])
            continue
        if isinstance(it, Const) and it.v is Ellipsis:
            return Top("ellipsis index")
        if k >= len(dims):
            interp.raises.append(("IndexError", interp.guards(), f"{interp.where()}: too many indices"))
            return Top("too many indices for array")
        d = dims[k]
        n = Poly.const(1)
        for _, e in d:
            n = n * e
        if isinstance(it, Num):
            i = it.p
            if i.is_const() and i.as_const() < 0:
                i = n + i
            interp.index_obligations.append((node, interp.where(), n, it.p, interp.guards(), "array index"))
            if len(d) == 1:
                elem = subst(elem, {d[0][0]: i})
            else:
                sub = _decompose(i, d, _known_extents(interp))
                elem = subst(elem, sub)
            k += 1
            continue
        if isinstance(it, Term) and it.op == "slice":
            lo, hi, st = _slice_bounds(it)
            if "?" in (lo, hi) and st is None and len(items) == 1 and len(dims) == 1 and len(d) == 1:
                # window `seq[max(0, a):min(n, b)]` of a one-dimensional array: kept symbolic; `enumerate(.., start=max(0, a))` re-enters
                # it as the full loop under the band condition a <= j < b (clipping at 0 and n is what python's slice does anyway)
                band = _band_bounds(it.args[0], it.args[1], n)
                if band is not None:
                    return Term("gslice", [g, it.args[0], it.args[1]], {"band": TupleV([Num(band[0]) if band[0] is not None else Const(None),
                                                                                         Num(band[1]) if band[1] is not None else Const(None)])})
            if "?" in (lo, hi, st):
                return Top("non-numeric slice bound")
            if st is not None and not (st == Poly.const(1)):
                if len(d) != 1:
                    return Top("strided slice of product dimension")
                lo2 = _norm_bound(lo, n, Poly.const(0), interp)
                hi2 = _norm_bound(hi, n, n, interp)
                ni = interp.fresh_idx("s")
                cnt = ceildiv(interp, hi2 - lo2, st)
                interp.events.append(("strided_slice", lo2, hi2, st, n, interp.where(), interp.guards(), tuple(interp.frames)))
                if st == Poly.const(-1) and lo is None and hi is None:
                    cnt = n
                    elem = subst(elem, {d[0][0]: n - 1 - Poly.atom(ni)})
                else:
                    elem = subst(elem, {d[0][0]: lo2 + st * Poly.atom(ni)})
                out_dims.append([(ni, cnt)])
                k += 1
                continue
            if lo is None and hi is None:
                out_dims.append(d)
                k += 1
                continue
            if len(d) != 1:
                # slice of a product dimension at multiples of the minor stride: slice the major axis
                lo2 = _norm_bound(lo, n, Poly.const(0), interp)
                hi2 = _norm_bound(hi, n, n, interp)
                stride = Poly.const(1)
                for _, e_ in d[1:]:
                    stride = stride * e_
                qlo, qhi = lo2 / stride, hi2 / stride

                def integral(q):
                    return all(c_.denominator == 1 for c_ in q.terms.values()) and \
                        all(e2 >= 0 and e2.denominator == 1 for mm in q.terms for _, e2 in mm)
                if integral(qlo) and integral(qhi):
                    ni = interp.fresh_idx("s")
                    elem = subst(elem, {d[0][0]: Poly.atom(ni) + qlo})
                    out_dims.append([(ni, qhi - qlo)] + list(d[1:]))
                    k += 1
                    continue
                return Top("slice of product dimension")
            lo2 = _norm_bound(lo, n, Poly.const(0), interp)
            hi2 = _norm_bound(hi, n, n, interp)
            ni = interp.fresh_idx("s")
            elem = subst(elem, {d[0][0]: Poly.atom(ni) + lo2})
            out_dims.append([(ni, hi2 - lo2)])
            # remember that hi2 might exceed n (python clips) — only exact when the caller's box makes it in range
            k += 1
            continue
        if isinstance(it, Grid):
            # fancy indexing (gather) or boolean mask
            if isinstance(it.elem, CondV):
                return Term("masked", [g, it])
            if len(d) == 1 and isinstance(it.elem, Num):
                elem = subst(elem, {d[0][0]: it.elem.p})
                out_dims.extend(it.dims)
                k += 1
                continue
            if isinstance(it.elem, Num):
                sub = _decompose(it.elem.p, d, _known_extents(interp, it.dims))
                elem = subst(elem, sub)
                out_dims.extend(it.dims)
                k += 1
                continue
            return Term("gather", [g, it])
        if isinstance(it, ListV):
            gi = to_grid(interp, it)
            if gi is not None:
                return grid_subscript(interp, g, TupleV(items[:items.index(it)] + [gi] + items[items.index(it) + 1:]) if len(items) > 1 else gi, node)
            return Term("gather", [g, it])
        if isinstance(it, Term):
            return Term("gather", [g, it])
        if isinstance(it, CondV):
            return Term("masked", [g, it])
        return Top(f"index of kind {type(it).__name__}")
    out_dims.extend(dims[k:])
    if not out_dims:
        return _resolve_pw_scalar(interp, elem)
    return simplify_pw(interp, Grid(out_dims, elem))


def _resolve_pw_scalar(interp, el):
    """piecewise term whose selector is a closed expression: pick the piece when membership is decidable"""
    if not _is_pw(el):
        return el
    sel = el.kw["idx"].p
    for p in el.args:
        st, ln, val = p.items[0].p, p.items[1].p, p.items[2]
        lo = interp.decide(CondV("cmp", ">=", sel, st))
        hi = interp.decide(CondV("cmp", "<", sel, st + ln))
        if lo is True and hi is True:
            return _resolve_pw_scalar(interp, val)
        if lo is None or hi is None:
            return el
    return el


def _known_extents(interp, extra_dims=None) -> dict:
    known = {}
    for fr in interp.frames:
        if fr.kind == "loop" and fr.idx is not None:
            known[fr.idx] = fr.extent
    for d in (extra_dims or []):
        for a, e in d:
            known[a] = e
    return known


def _decompose(i: Poly, d, known=None) -> Optional[dict]:
    """flat index polynomial into a product dimension [(idx, ext)...] (major -> minor): mixed-radix digits.
    F = Q*e + R with R provably in [0, e) (an index atom whose extent is e, a constant below e, or 0) gives digit R and
    carries Q; otherwise the digit is the symbolic mod(F, e) and the carry div(F, e)."""
    known = known or {}
    sub = {}
    F = i
    for k in range(len(d) - 1, -1, -1):
        a, e = d[k]
        if k == 0:
            sub[a] = F
            break
        Q = Poly()
        R = Poly()
        for m, c in F.terms.items():
            term = Poly({m: c})
            quo = term / e
            ok = all(e2 >= 0 and e2.denominator == 1 for mm in quo.terms for _, e2 in mm) and \
                all(cc.denominator == 1 for cc in quo.terms.values())
            if ok:
                Q = Q + quo
            else:
                R = R + term
        in_range = False
        if R.is_zero():
            in_range = True
        elif R.is_monomial():
            c, atoms = R.single_term()
            if c == 1 and len(atoms) == 1:
                (ra, re_), = atoms.items()
                if re_ == 1 and ra in known and known[ra] == e:
                    in_range = True
            if not atoms and e.is_const() and 0 <= c < e.as_const():
                in_range = True
        if in_range:
            sub[a] = R
            F = Q
        else:
            sub[a] = Poly.app("mod", F, e)
            F = Poly.app("div", F, e)
    return sub


def list_subscript(interp, l: ListV, idx: V, node) -> V:
    fl = flat_elems(l.items)
    ln = items_len(l.items)
    if isinstance(idx, Num):
        interp.index_obligations.append((node, interp.where(), ln, idx.p, interp.guards(), "list index"))
        if idx.p.is_const() and idx.p.as_const().denominator == 1:
            k = int(idx.p.as_const())
            if fl is not None:
                if -len(fl) <= k < len(fl):
                    return fl[k]
                interp.raises.append(("IndexError", interp.guards(), f"{interp.where()}: list index {k} of {len(fl)}"))
                return Top("list index out of range")
            # first / last element of a structured list
            items = l.items
            if k >= 0:
                pos = 0
                for it in items:
                    if isinstance(it, Elem):
                        if pos == k:
                            return it.value
                        pos += 1
                    else:
                        break
                if items and isinstance(items[0], Loop) and len(items[0].items) == 1 and isinstance(items[0].items[0], Elem) and pos == 0:
                    return subst(items[0].items[0].value, {items[0].idx: Poly.const(k)})
            else:
                pos = -1
                for it in reversed(items):
                    if isinstance(it, Elem):
                        if pos == k:
                            return it.value
                        pos -= 1
                    else:
                        if isinstance(it, Loop) and len(it.items) == 1 and isinstance(it.items[0], Elem):
                            return subst(it.items[0].value, {it.idx: it.extent - 1 + (k - pos)})
                        break
            return Term("listitem", [l, idx])
        g = to_grid(interp, l)
        if g is not None:
            return grid_subscript(interp, g, idx, node)
        return Term("listitem", [l, idx])
    if isinstance(idx, Term) and idx.op == "slice":
        lo, hi, st = _slice_bounds(idx)
        if "?" in (lo, hi, st):
            return Top("slice bound")
        if fl is not None and all(x is None or x.is_const() for x in (lo, hi, st)):
            s = slice(*[None if x is None else int(x.as_const()) for x in (lo, hi, st)])
            return interp.new_list([Elem(x) for x in fl[s]])
        if st is None or st == Poly.const(1):
            r = _structured_list_slice(interp, l, lo, hi)
            if r is not None:
                return r
        g = to_grid(interp, l)
        if g is not None:
            r = grid_subscript(interp, g, idx, node)
            return r
        return Term("listslice", [l, idx])
    return Term("listitem", [l, idx])


def _structured_list_slice(interp, l: ListV, lo, hi):
    """[:-m] / [k:] on skeleton lists where whole leading / trailing items are removed"""
    items = l.items
    if lo is None and hi is not None and (all(c < 0 for c in hi.terms.values()) or
                                          interp.decide(CondV("cmp", "<", hi, Poly.const(0))) is True):
        cut = -hi   # remove `cut` trailing elements
        # case: single Rep([..., Seg(None, cut)], count)  ->  Rep(count-1) + head of the period
        if len(items) == 1 and isinstance(items[0], Rep):
            rep = items[0]
            inner = rep.items
            if inner and isinstance(inner[-1], Rep):
                tail = inner[-1]
                tl = items_len(tail.items)
                if tl is not None and tl * tail.count == cut:
                    return interp.new_list([Rep(copy_items(inner), rep.count - 1)] + copy_items(inner[:-1]))
            tl = items_len(inner)
            if tl is not None and tl == cut:
                return interp.new_list([Rep(copy_items(inner), rep.count - 1)])
        # plain trailing elements
        n = 0
        k = len(items)
        while k > 0 and isinstance(items[k - 1], Elem) and Poly.const(n) != cut:
            k -= 1
            n += 1
        if Poly.const(n) == cut:
            return interp.new_list(copy_items(items[:k]))
        if items and isinstance(items[-1], Rep):
            tl = items_len(items[-1].items)
            if tl is not None and tl * items[-1].count == cut:
                return interp.new_list(copy_items(items[:-1]))
    return None


# ---------------------------------------------------------------------------------------------------------------------
def value_attr(interp, base: V, name: str, node) -> Optional[V]:
    if isinstance(base, Grid):
        if name == "shape":
            return TupleV([Num(base.dim_len(k)) for k in range(base.ndim)])
        if name == "T":
            if base.ndim == 2:
                return Grid([base.dims[1], base.dims[0]], base.elem)
            if base.ndim == 1:
                return base
            return Term("T", [base])
        if name == "size":
            p = Poly.const(1)
            for k in range(base.ndim):
                p = p * base.dim_len(k)
            return Num(p)
        if name == "ndim":
            return Num(base.ndim)
        if name in ("real",):
            return base
        if name == "imag":
            return Term("imag", [base])
        return None
    if isinstance(base, Term):
        if name in ("T", "real", "imag", "shape", "size", "data", "row", "col"):
            return Term("attr_" + name, [base])
        return None
    if isinstance(base, ListV):
        return None
    return None


def obj_attr(interp, o: ObjV, name: str, node) -> Optional[V]:
    if o.ext == "sparse":
        return sparse_attr(interp, o, name)
    if o.ext == "ndarray":
        if name == "shape" and "dims" in o.attrs:
            return TupleV([Num(e) for e in o.attrs["dims"].items_p])
        if name == "T":
            return Term("T", [Term("ndarray", [Const(o.uid)], {"arr": o})])
    if isinstance(o.ext, str) and o.ext.startswith("scipy.spatial.") and isinstance(o.origin, Term) and o.origin.args:
        # qhull objects: the input point set is kept; its size is the number of input points (one Voronoi region / hull point each)
        pts = o.origin.args[0]
        if name == "points":
            return pts
        if name == "npoints":
            n = value_len(pts)
            if n is not None:
                return Num(n)
    return None


# ---------------------------------------------------------------------------------------------------------------------
class _Dims(V):
    def __init__(self, items_p):
        self.items_p = items_p


def _shape_arg(v) -> Optional[List[Poly]]:
    if isinstance(v, Num):
        return [v.p]
    if isinstance(v, TupleV) and all(isinstance(x, Num) for x in v.items):
        return [x.p for x in v.items]
    if isinstance(v, ListV):
        fl = flat_elems(v.items)
        if fl is not None and all(isinstance(x, Num) for x in fl):
            return [x.p for x in fl]
    return None


def new_ndarray(interp, shape: List[Poly], fill: V) -> ObjV:
    o = ObjV(ext="ndarray")
    o.attrs["dims"] = _Dims(shape)
    o.attrs["fill"] = fill
    return o


def _axis(kwargs, args, pos):
    a = kwargs.get("axis")
    if a is None and len(args) > pos:
        a = args[pos]
    if a is None:
        return None
    if isinstance(a, Const) and a.v is None:
        return None
    if isinstance(a, Num) and a.p.is_const():
        return int(a.p.as_const())
    return "?"


def call_ext(interp, dotted: str, args: List[V], kwargs: Dict[str, V], node, cc) -> Optional[V]:
    d = dotted
    if d.startswith("builtins."):
        return call_builtin(interp, d[9:], args, kwargs, node, cc)
    if d in ELEMENTWISE_UFUNCS and args:
        return apply_ufunc(interp, ELEMENTWISE_UFUNCS[d], args[0])
    if d == "numpy.round" or d == "numpy.around":
        dec = kwargs.get("decimals", args[1] if len(args) > 1 else Num(0))
        if isinstance(dec, Num) and dec.p.is_const() and dec.p.as_const() >= 12:
            interp.events.append(("round_identity", dec.p.as_const(), interp.where()))
            return args[0]
        if isinstance(dec, Num) and dec.p.is_const():
            k = int(dec.p.as_const())
            return _map_elem(interp, args[0], lambda p: Poly.app("round", p, Poly.const(k)), "round")
        if isinstance(args[0], Term):
            return Term("round", [args[0]], {"decimals": Const("computed")})   # quantisation with a computed number of decimals: still a rounding step
        return Top("round with non-constant decimals")
    if d == "numpy.where":
        if len(args) == 3:
            c, a, b = args

            def f3(cv, av, bv):
                if isinstance(cv, CondV) and cv.kind == "cmp" and isinstance(av, Num) and isinstance(bv, Num):
                    op, l, r = cv.args
                    # where(x < c, x, c)  /  where(x > c, c, x)  -> clamp_hi(x, c)
                    if op in ("<", "<=") and l == av.p and r == bv.p:
                        return Num(Poly.app("clamp_hi", av.p, bv.p))
                    if op in (">", ">=") and l == bv.p and r == av.p:
                        return Num(Poly.app("clamp_hi", bv.p, av.p))
                    if op in (">", ">=") and l == av.p and r == bv.p:
                        return Num(Poly.app("clamp_lo", av.p, bv.p))
                    if op in ("<", "<=") and l == bv.p and r == av.p:
                        return Num(Poly.app("clamp_lo", bv.p, av.p))
                    return Num(Poly.app("where", Poly.app("cmp", op, l, r), av.p, bv.p))
                return Term("where", [cv, av, bv])
            r1 = interp.elementwise2(c, a, lambda x, y: TupleV([x, y]), "where")
            if isinstance(r1, Top):
                return r1
            r2 = interp.elementwise2(r1, b, lambda xy, z: f3(xy.items[0], xy.items[1], z) if isinstance(xy, TupleV) else Top("where"), "where")
            return r2
        if len(args) == 1:
            return TupleV([Term("nonzero_indices", [args[0]])])
        return None
    if d == "numpy.nonzero" and args:
        from . import farray as _fa
        a0 = args[0]
        if isinstance(a0, ObjV) and a0.ext == "ndarray":
            a0 = ndarray_value(interp, a0)
        fz = _fa.nonzero(interp, a0) if isinstance(a0, Grid) and a0.ndim == 2 else None
        if fz is not None:
            return fz
    if d in ("numpy.nonzero", "numpy.flatnonzero", "numpy.argwhere"):
        t = Term("nonzero_indices", [args[0]])
        return TupleV([t]) if d == "numpy.nonzero" else t
    if d == "numpy.arange":
        a = [x for x in args]
        if all(isinstance(x, Num) for x in a):
            if len(a) == 1:
                return arange(interp, a[0].p)
            if len(a) == 2:
                return arange(interp, a[1].p - a[0].p, a[0].p)
            if len(a) == 3:
                n = Poly.app("ceildiv", a[1].p - a[0].p, a[2].p)
                idx = interp.fresh_idx("i")
                return Grid([[(idx, n)]], Num(a[0].p + a[2].p * Poly.atom(idx)))
        if "stop" in kwargs and isinstance(kwargs["stop"], Num) and not args:
            return arange(interp, kwargs["stop"].p)
        return Term("arange", args, kwargs)
    if d == "numpy.linspace":
        return Term("linspace", args, kwargs)
    if d in ("numpy.ones", "numpy.zeros", "numpy.empty", "numpy.full"):
        sh = _shape_arg(args[0] if args else kwargs.get("shape"))
        if sh is None:
            return Top(f"{d} with unknown shape")
        if d == "numpy.ones":
            return Grid([[(interp.fresh_idx("z"), e)] for e in sh], Num(1))
        fill = Num(0) if d == "numpy.zeros" else (Term("uninitialised") if d == "numpy.empty" else
                                                 (args[1] if len(args) > 1 else kwargs.get("fill_value", Top("fill"))))
        return new_ndarray(interp, sh, fill)
    if d in ("numpy.zeros_like", "numpy.empty_like", "numpy.ones_like"):
        return Term(d.split(".")[1], args, kwargs)
    if d in ("numpy.array", "numpy.asarray"):
        v = args[0]
        if isinstance(v, Grid):
            return v
        if isinstance(v, ObjV) and v.ext == "ndarray":
            return v
        if isinstance(v, (ListV, TupleV)):
            dt = kwargs.get("dtype")
            if isinstance(dt, ExtV) and dt.dotted == "builtins.object":
                return Term("object_array", [v])
            g = to_grid(interp, v)
            if g is not None:
                return g
            return Term("array", [v])
        if isinstance(v, (Term, Num)):
            dt = kwargs.get("dtype")
            if isinstance(v, Term) and isinstance(dt, ExtV) and dt.dotted in ("builtins.float", "numpy.float64", "numpy.double"):
                return Term("as_float", [v])        # value-preserving; remembered for dtype-sensitive consumers (hashing)
            return v
        return Term("array", [v])
    if d == "numpy.tile":
        x = args[0]
        reps = args[1] if len(args) > 1 else kwargs.get("reps")
        g = to_grid(interp, x) if not isinstance(x, Grid) else x
        if g is None:
            return Top("tile of unstructured value")
        rs = _shape_arg(reps)
        if rs is None:
            return Top("tile reps")
        if len(rs) < g.ndim:
            rs = [Poly.const(1)] * (g.ndim - len(rs)) + rs
        if len(rs) > g.ndim:
            return Top("tile adds dimensions")
        dims = []
        for dim, rp in zip(g.dims, rs):
            if rp == Poly.const(1):
                dims.append(dim)
            else:
                dims.append([(interp.fresh_idx("t"), rp)] + dim)
        return Grid(dims, g.elem)
    if d == "numpy.repeat":
        x = args[0]
        reps = args[1] if len(args) > 1 else kwargs.get("repeats")
        from . import farray as _fa
        if _fa.is_farray(x) and _axis(kwargs, args, 2) is None:
            fr = _fa.repeat(interp, x, reps)
            if fr is not None:
                return fr
        ax = _axis(kwargs, args, 2)
        g = to_grid(interp, x) if not isinstance(x, Grid) else x
        if g is None or not isinstance(reps, Num):
            return Top("repeat of unstructured value")
        if ax is None:
            if g.ndim != 1:
                return Top("repeat flattening")
            ax = 0
        if ax == "?" or ax >= g.ndim:
            return Top("repeat axis")
        dims = [list(dm) for dm in g.dims]
        dims[ax] = dims[ax] + [(interp.fresh_idx("p"), reps.p)]
        return Grid(dims, g.elem)
    if d == "numpy.append" and len(args) == 2 and not kwargs:
        # np.append(a, b) without an axis flattens both and concatenates: for one-dimensional a and a scalar / one-dimensional b
        # it is np.concatenate((a, [b]))
        a_, b_ = args
        if isinstance(b_, Num):
            b_ = interp.new_list([Elem(b_)])
        ga = a_ if isinstance(a_, Grid) else to_grid(interp, a_)
        if ga is not None and ga.ndim == 1:
            return call_ext(interp, "numpy.concatenate", [TupleV([ga, b_])], {}, node, cc)
    if d == "numpy.concatenate" or d == "numpy.hstack":
        seq = args[0]
        parts = seq.items if isinstance(seq, TupleV) else (flat_elems(seq.items) if isinstance(seq, ListV) else None)
        if parts is None:
            return Top("concatenate of unstructured sequence")
        gs = []
        for p in parts:
            gp = p if isinstance(p, Grid) else to_grid(interp, p)
            if gp is None or gp.ndim != 1:
                return Term("concatenate", [seq])
            gs.append(gp)
        r = cat(interp, gs)
        return r if r is not None else Term("concatenate", [seq])
    if d == "numpy.meshgrid" and len(args) == 2:
        x = args[0] if isinstance(args[0], Grid) else to_grid(interp, args[0])
        y = args[1] if isinstance(args[1], Grid) else to_grid(interp, args[1])
        ind = kwargs.get("indexing", Const("xy"))
        if isinstance(x, Grid) and isinstance(y, Grid) and x.ndim == 1 and y.ndim == 1 and isinstance(ind, Const) and ind.v in ("xy", "ij"):
            if ind.v == "xy":      # shape (len(y), len(x)):  X[i, j] = x[j],  Y[i, j] = y[i]
                return TupleV([Grid([y.dims[0], x.dims[0]], x.elem), Grid([y.dims[0], x.dims[0]], y.elem)])
            return TupleV([Grid([x.dims[0], y.dims[0]], x.elem), Grid([x.dims[0], y.dims[0]], y.elem)])
        return Top("meshgrid of unstructured values")
    if d == "numpy.diff" and len(args) == 1 and not kwargs:
        x = args[0] if isinstance(args[0], Grid) else to_grid(interp, args[0])
        if isinstance(x, Grid) and x.ndim == 1:
            hi = grid_subscript(interp, x, Term("slice", [Num(1), Const(None), Const(None)]), node)
            lo = grid_subscript(interp, x, Term("slice", [Const(None), Num(-1), Const(None)]), node)
            return interp.binop(ast.Sub(), hi, lo, node)
        return Term("diff", args)
    if d == "numpy.diff" and len(args) == 1 and (not kwargs or (set(kwargs) <= {"axis", "n"} and
                                                             (("axis" not in kwargs) or (isinstance(kwargs["axis"], Num) and kwargs["axis"].p.is_const() and kwargs["axis"].p.as_const() in (0, -1))) and
                                                             (("n" not in kwargs) or (isinstance(kwargs["n"], Num) and kwargs["n"].p == Poly.const(1))))):
        x = args[0] if isinstance(args[0], Grid) else to_grid(interp, args[0])
        if isinstance(x, Grid) and x.ndim == 1:
            hi = grid_subscript(interp, x, Term("slice", [Num(1), Const(None), Const(None)]), node)
            lo = grid_subscript(interp, x, Term("slice", [Const(None), Num(-1), Const(None)]), node)
            return interp.binop(ast.Sub(), hi, lo, node)
        return Term("diff", args)
    if d == "numpy.gradient" and len(args) == 1 and not kwargs:
        g = args[0]
        if isinstance(g, ObjV) and g.ext == "ndarray":
            g = ndarray_value(interp, g)
        if isinstance(g, Grid) and g.ndim == 1 and len(g.dims[0]) == 1 and isinstance(g.elem, Num):
            ax, ext = g.dims[0][0]
            i = Poly.atom(ax)
            e = lambda j: subst(g.elem, {ax: j}).p
            # numpy: one-sided differences at both ends, central differences in the interior (unit spacing)
            pieces = [TupleV([Num(0), Num(1), Num(e(Poly.const(1)) - e(Poly.const(0)))]),
                      TupleV([Num(1), Num(ext - 2), Num((e(i + 1) - e(i - 1)) / 2)]),
                      TupleV([Num(ext - 1), Num(1), Num(e(ext - 1) - e(ext - 2))])]
            return Grid(g.dims, Term("piecewise", pieces, {"idx": Num(i)}))
        return Top("numpy.gradient of a value that is not a plain 1-D sequence")
    if d == "numpy.broadcast_to" and len(args) == 2:
        from . import farray as _fa
        shp = args[1]
        if _fa.is_farray(args[0]) and args[0].kind == "array" and isinstance(shp, TupleV) and len(shp.items) == 2 and isinstance(shp.items[0], Num):
            # rows of the result are copies of the array: the NEW axis is the outer one
            return Term("bcast_rows", [args[0], shp.items[0]])
        return Term("broadcast_to", args, kwargs)
    if d in ("numpy.divmod", "builtins.divmod") and len(args) == 2 and not kwargs:
        q_ = binop(interp, ast.FloorDiv(), args[0], args[1], node)
        r_ = binop(interp, ast.Mod(), args[0], args[1], node)
        if q_ is not None and r_ is not None:
            return TupleV([q_, r_])
    if d in ("numpy.floor_divide", "numpy.mod", "numpy.remainder") and len(args) == 2 and not kwargs:
        r_ = binop(interp, ast.FloorDiv() if d == "numpy.floor_divide" else ast.Mod(), args[0], args[1], node)
        if r_ is not None:
            return r_
    if d == "numpy.unravel_index" and len(args) == 2 and isinstance(args[1], TupleV) and all(isinstance(x, Num) for x in args[1].items):
        # C order: the last axis runs fastest.  idx_k = (p div (d_{k+1}*...*d_last)) mod d_k, written with nested div so that
        # x div m * m + x mod m can be recognised as x; the first axis is not reduced (numpy raises for indices out of bounds)
        idx = args[0]
        if isinstance(idx, ObjV) and idx.ext == "ndarray":
            idx = ndarray_value(interp, idx)
        dims_ = [x.p for x in args[1].items]
        if isinstance(idx, (Grid, Num)):
            outs = []
            for k in range(len(dims_)):
                def f(p_, k=k):
                    q = p_
                    for dlast in reversed(dims_[k + 1:]):
                        q = Poly.app("div", q, dlast)
                    return q if k == 0 else Poly.app("mod", q, dims_[k])
                outs.append(_map_elem(interp, idx, f, "unravel"))
            return TupleV(outs)
        return Term("unravel_index", args, kwargs)
    if d == "numpy.sort":
        return Term("sort", args, kwargs)
    if d == "numpy.unique":
        return Term("unique", args, kwargs)
    if d in ("numpy.intersect1d", "numpy.union1d", "numpy.setdiff1d", "numpy.setxor1d"):
        # set operations: the result is the SORTED set of unique values - order and multiplicity of the operands are not kept
        return Term("setop", [Const(d.split(".")[-1])] + list(args), kwargs)
    if d in ("numpy.sum", "numpy.mean", "numpy.max", "numpy.min", "numpy.prod", "numpy.average", "numpy.amax", "numpy.amin"):
        return reduce_call(interp, d.split(".")[1], args[0], _axis(kwargs, args, 1))
    if d in ("numpy.argmin", "numpy.argmax", "numpy.argsort"):
        return Term(d.split(".")[1], [args[0]], {"axis": Const(_axis(kwargs, args, 1))})
    if d in ("numpy.all", "numpy.any"):
        return CondV("opaque", d.split(".")[1], args[0])
    if d in ("numpy.isclose", "numpy.allclose"):
        return CondV("opaque", d.split(".")[1], *args)
    if d == "numpy.linalg.norm":
        ax = _axis(kwargs, args, 2)
        x = args[0]
        if ax is None:
            return Term("norm", [x])
        return Term("norm", [x], {"axis": Const(ax)})
    if d in ("numpy.atleast_2d", "numpy.atleast_3d") and args:
        if isinstance(args[0], Grid) and args[0].ndim >= (2 if d.endswith("2d") else 3):
            return args[0]
        return Term(d.split(".")[-1], [args[0]])
    if d in ("numpy.ravel", "numpy.atleast_1d", "numpy.asanyarray", "numpy.ascontiguousarray", "numpy.copy") and args:
        if d == "numpy.ravel":
            r = call_method(interp, args[0], "ravel", [], {}, node, None)
            return r if r is not None else Term("ravel", [args[0]])
        return args[0]
    if d in ("numpy.multiply.outer", "numpy.outer") and len(args) == 2 and not kwargs:
        a_, b_ = args
        ga = a_ if isinstance(a_, Grid) else to_grid(interp, a_)
        gb = b_ if isinstance(b_, Grid) else to_grid(interp, b_)
        if isinstance(ga, Grid) and isinstance(gb, Grid) and ga.ndim == 1 and gb.ndim == 1 and len(ga.dims[0]) == 1 and len(gb.dims[0]) == 1:
            # outer product of two one-dimensional arrays: element [i, j] = a[i] * b[j]
            ia, ea = ga.dims[0][0]
            ib, eb = gb.dims[0][0]
            if ia == ib:
                nb_ = interp.fresh_idx("o")
                gb = Grid([[(nb_, eb)]], subst(gb.elem, {ib: Poly.atom(nb_)}))
                ib = nb_
            prod = interp.binop(ast.Mult(), ga.elem, gb.elem)
            if prod is not None and not isinstance(prod, Top):
                return Grid([[(ia, ea)], [(ib, eb)]], prod)
    if d == "numpy.cumsum" and len(args) == 1 and not kwargs:
        x = args[0]
        if isinstance(x, ObjV) and x.ext == "ndarray":
            x = ndarray_value(interp, x)
        if isinstance(x, Grid) and x.ndim == 1 and len(x.dims[0]) == 1 and isinstance(x.elem, Num):
            # running sum of a one-dimensional array: element t is  sum_{j <= t} x[j]  (kept as a closed `psum` over a bound index)
            t_idx, ext = x.dims[0][0]
            j = interp.fresh_idx("j")
            body = x.elem.p.subs({t_idx: Poly.atom(j)})
            return Grid(x.dims, Num(Poly.app("psum", Poly.atom(j), body, Poly.atom(t_idx) + 1)))
        if isinstance(x, Grid) and x.ndim == 1 and len(x.dims[0]) == 1 and not contains_top(x):
            # element of another form (e.g. piecewise): the running sum is kept opaque but exact - it is identified by the summed array
            t_idx, ext = x.dims[0][0]
            return Grid(x.dims, Num(Poly.app("psum_of", vstr(subst(x.elem, {t_idx: Poly.atom(("idx", "_"))}))[:400], Poly.atom(t_idx) + 1)))
    if d in ("numpy.cross", "numpy.dot", "numpy.outer", "numpy.matmul", "numpy.multiply", "numpy.divide", "numpy.kron",
             "numpy.vstack", "numpy.diag", "numpy.eye", "numpy.clip", "numpy.linalg.inv", "numpy.linalg.matrix_rank",
             "numpy.diagonal", "numpy.cumsum", "numpy.squeeze", "numpy.transpose", "numpy.argpartition",
             "numpy.in1d", "numpy.isin", "numpy.count_nonzero", "numpy.minimum", "numpy.maximum", "numpy.power"):
        nm = d.split(".")[-1]
        if nm == "multiply" and len(args) == 2:
            return interp.binop(ast.Mult(), args[0], args[1])
        if nm == "divide" and len(args) == 2:
            return interp.binop(ast.Div(), args[0], args[1])
        if nm == "power" and len(args) == 2:
            return interp.binop(ast.Pow(), args[0], args[1])
        if nm == "squeeze":
            return args[0]
        if nm == "clip" and len(args) + len([k for k in kwargs if k in ("a_min", "a_max")]) >= 3:
            lo = kwargs.get("a_min", args[1] if len(args) > 1 else Const(None))
            hi = kwargs.get("a_max", args[2] if len(args) > 2 else Const(None))

            def clipf(p, lo=lo, hi=hi):
                if isinstance(lo, Num) and isinstance(hi, Num):
                    return Poly.app("clamp", p, lo.p, hi.p)
                if isinstance(hi, Num):
                    return Poly.app("clamp_hi", p, hi.p)
                if isinstance(lo, Num):
                    return Poly.app("clamp_lo", p, lo.p)
                return Poly.top("clip bounds")
            return _map_elem(interp, args[0], clipf, "clip")
        if nm in ("minimum", "maximum") and len(args) == 2:
            a, b = args
            fn_name = "clamp_hi" if nm == "minimum" else "clamp_lo"
            if isinstance(b, Num) and b.p.is_const():
                return _map_elem(interp, a, lambda p, b=b: Poly.app(fn_name, p, b.p), nm)
            if isinstance(a, Num) and a.p.is_const():
                return _map_elem(interp, b, lambda p, a=a: Poly.app(fn_name, p, a.p), nm)
        if nm == "outer" and len(args) == 2 and isinstance(args[0], Grid) and isinstance(args[1], Grid) and \
                args[0].ndim == 1 and args[1].ndim == 1:
            a, b = args
            el = binop(interp, ast.Mult(), a.elem, b.elem)
            return Grid([a.dims[0], b.dims[0]], el if el is not None else Term("mult", [a.elem, b.elem]))
        return Term(nm, args, kwargs)
    if d in ("numpy.add.reduceat", "numpy.maximum.reduceat", "numpy.minimum.reduceat", "numpy.multiply.reduceat"):
        return Term("reduceat", [Const(d.split(".")[1])] + list(args), kwargs)
    if d in ("numpy.random.seed",):
        interp.events.append(("seed", args, interp.where()))
        return Const(None)
    if d.startswith("numpy.random."):
        return Term("random." + d.split(".")[-1], args, kwargs)
    if d in SPARSE_CTORS:
        return sparse_ctor(interp, d.split(".")[-1], args, kwargs, node)
    if d == "scipy.sparse.dok_array" or d == "scipy.sparse.dok_matrix":
        o = new_sparse(Term("dok", args, kwargs), "dok", ("dok",), args[0] if args else None, fmt="dok")
        return o
    if d == "scipy.sparse.diags":
        o = new_sparse(Term("diags", args, kwargs), "diags", ("diags",), kwargs.get("shape"),
                       fmt=(kwargs.get("format").v if isinstance(kwargs.get("format"), Const) else "dia"))
        return o
    if d in ("scipy.sparse.bmat", "scipy.sparse.block_array"):
        return new_sparse(Term("bmat", args, kwargs), "bmat", ("bmat",), None, fmt="coo")
    if d == "copy.deepcopy" or d == "copy.copy":
        return copy_value(interp, args[0], deep=d.endswith("deepcopy"))
    if d == "ast.literal_eval":
        return Term("literal_eval", args)
    if d == "itertools.combinations" and len(args) == 2 and isinstance(args[1], Num) and args[1].p == Poly.const(2):
        n = value_len(args[0])
        src_v = args[0]
        if n is None and isinstance(src_v, Term) and src_v.op == "range" and len(src_v.args) == 1 and isinstance(src_v.args[0], Num):
            n = src_v.args[0].p          # combinations(range(n), 2): the elements are the positions themselves
        if n is not None:
            return Term("combinations2", [Num(n), src_v])
        return None
    if d == "itertools.product":
        return Term("product", args, kwargs)
    if d in ("scipy.spatial.ConvexHull", "scipy.spatial.Voronoi", "scipy.spatial.SphericalVoronoi",
             "scipy.spatial.Delaunay"):
        if args:
            n_pts = value_len(args[0])
            interp.events.append(("qhull", d, n_pts, interp.where()))
        return ObjV(ext=d, origin=Term(d.split(".")[-1], args, kwargs))
    if d == "scipy.spatial.distance.cdist":
        return Term("cdist", args, kwargs)
    if d.startswith("scipy.spatial.transform.Rotation"):
        return Term(d.replace("scipy.spatial.transform.", ""), args, kwargs)
    if d == "scipy.linalg.svd":
        return Term("svd", args, kwargs)
    if d.startswith("hashlib."):
        return Term(d, args, kwargs)
    if d == "functools.partial":
        return Term("partial", args, kwargs)
    if d.startswith("typing.") or d.startswith("numpy.typing") or d.startswith("numpy._typing"):
        return ExtV(d)
    if d == "time.time":
        return Term("time", [])
    return None


def _map_elem(interp, v, fn, name):
    if isinstance(v, Num):
        return Num(fn(v.p))
    if isinstance(v, Grid):
        return Grid(v.dims, _map_elem(interp, v.elem, fn, name))
    if isinstance(v, Top):
        return v
    return Term(name, [v])


def reduce_call(interp, name: str, x: V, axis) -> V:
    if isinstance(x, Grid):
        if axis is None:
            return Term("reduce_" + name, [x])
        if axis == "?":
            return Top("reduce over unknown axis")
        if axis < 0:
            axis += x.ndim
        if 0 <= axis < x.ndim:
            rest = [dm for k, dm in enumerate(x.dims) if k != axis]
            red = x.dims[axis]
            t = Term("reduce_" + name, [x.elem], {"over": TupleV([Num(Poly.atom(a)) for a, _ in red]),
                                                   "extent": TupleV([Num(e) for _, e in red])})
            if rest:
                return Grid(rest, t)
            return t
        return Top("reduce axis out of range")
    if is_sparse(x):
        return Term("sp" + name, [_freeze_sparse(x)], {"axis": Const(axis)})
    if isinstance(x, ListV):
        g = to_grid(interp, x)
        if g is not None:
            return reduce_call(interp, name, g, axis)
        return Term("reduce_" + name, [x], {"axis": Const(axis)})
    if isinstance(x, (Term, TupleV)):
        return Term("reduce_" + name, [x], {"axis": Const(axis)})
    if isinstance(x, Num):
        return x
    return Top(f"{name} of {type(x).__name__}")


def sparse_ctor(interp, kind: str, args, kwargs, node) -> V:
    fmt = kind[:3]
    a0 = args[0] if args else None
    shape = kwargs.get("shape")
    if is_sparse(a0):
        return sparse_convert(interp, a0, "to" + fmt)
    if isinstance(a0, TupleV) and len(a0.items) == 2 and isinstance(a0.items[1], TupleV) and len(a0.items[1].items) == 2:
        vals, (rows, cols) = a0.items[0], a0.items[1].items
        return new_sparse(Term("triplets", [vals, rows, cols], {"shape": shape or Const(None), "dtype": kwargs.get("dtype", Const(None))}),
                          f"triplets#{id(a0)}", ("triplets",), shape, fmt=fmt)
    if isinstance(a0, TupleV) and len(a0.items) == 2 and all(isinstance(x, Num) for x in a0.items):
        return new_sparse(Term("empty_sparse", [a0]), "empty", ("empty",), a0, fmt=fmt)
    return new_sparse(Term("from_dense", [a0], kwargs), f"dense#{id(a0)}", ("dense",), shape, fmt=fmt)


def copy_value(interp, v, deep=True):
    if isinstance(v, ListV):
        n = interp.new_list(copy_items(v.items), v.kind)
        if deep:
            _deepcopy_items(interp, n.items)
        return n
    if isinstance(v, ObjV) and v.ext == "sparse":
        return sparse_convert(interp, v, "copy")
    if isinstance(v, DictV):
        return DictV(dict(v.d))
    return v


def _deepcopy_items(interp, items):
    for it in items:
        if isinstance(it, Elem) and isinstance(it.value, ListV):
            it.value = copy_value(interp, it.value, True)
        elif isinstance(it, (Loop, Guard, Rep)):
            _deepcopy_items(interp, it.items)


# ---------------------------------------------------------------------------------------------------------------------
def call_builtin(interp, name, args, kwargs, node, cc) -> Optional[V]:
    if name == "len":
        ln = value_len(args[0])
        if ln is not None:
            return Num(ln)
        v = args[0]
        if isinstance(v, ObjV) and v.cls is not None:
            m = v.cls.find_method("__len__")
            if m is not None:
                return interp.call_function(m, [], {}, self_obj=v, node=node)
        if isinstance(v, ObjV) and v.ext == "ndarray" and "dims" in v.attrs:
            return Num(v.attrs["dims"].items_p[0])
        if isinstance(v, Top):
            return v
        if isinstance(v, ListV):
            return Num(Poly.app("len", Poly.atom(("sym", f"list#{v.uid}"))))
        return Term("len", [v])
    if name == "range":
        if all(isinstance(a, Num) for a in args) and 1 <= len(args) <= 3:
            return Term("range", args)
        return Top("range of non-numeric")
    if name == "enumerate":
        if kwargs and "start" in kwargs and len(args) == 1:
            return Term("enumerate", list(args) + [kwargs["start"]])
        if kwargs:
            return Top("enumerate with unrecognised options")
        return Term("enumerate", args)
    if name == "zip":
        return Term("zip", args)
    if name in ("list", "tuple"):
        if not args:
            return interp.new_list() if name == "list" else TupleV([])
        v = args[0]
        if isinstance(v, ListV):
            if v.kind == "set":
                n = interp.new_list(copy_items(v.items), "list")
                n.sorted_flag = "UNORDERED"
                return n
            return interp.new_list(copy_items(v.items), "list")
        if isinstance(v, TupleV):
            return interp.new_list([Elem(x) for x in v.items]) if name == "list" else v
        if isinstance(v, Grid) and v.ndim >= 1:
            l = interp.new_list()
            interp._splice_into(l.items, v)
            return l
        if isinstance(v, Term) and v.op == "range" and len(v.args) == 1:
            idx = interp.fresh_idx("i")
            return interp.new_list([Loop(idx, v.args[0].p, [Elem(Num(Poly.atom(idx)))], None, ("range",))])
        if isinstance(v, Term):
            return Term("list_of", [v])
        if isinstance(v, Top):
            return v
        return Term("list_of", [v])
    if name in ("set", "frozenset"):
        if not args:
            return interp.new_list(kind="set")
        return Term("set_of", args)
    if name == "sorted":
        return Term("sorted", args, kwargs)
    if name == "reversed":
        return Term("reversed", args)
    if name in ("int", "float"):
        v = args[0] if args else Num(0)
        if isinstance(v, Num):
            if name == "int" and not (v.p.is_const() and v.p.as_const().denominator == 1):
                if v.p.is_const():
                    c = v.p.as_const()
                    return Num(Poly.const(int(c)))
                return Num(Poly.app("int", v.p)) if False else v   # symbolic ints: identity (documented assumption)
            return v
        if isinstance(v, Const) and isinstance(v.v, str):
            try:
                return Num(Poly.const(int(v.v) if name == "int" else float(v.v)))
            except ValueError:
                interp.raises.append(("ValueError", interp.guards(), f"{interp.where()}: {name}({v.v!r})"))
                return Top("int() of non-numeric string")
        return Term(name, args)
    if name == "str":
        v = args[0] if args else Const("")
        if isinstance(v, Const):
            return Const(str(v.v))
        if isinstance(v, Num) and v.p.is_const() and v.p.as_const().denominator == 1:
            return Const(str(int(v.p.as_const())))
        return Term("str", args)
    if name == "bool":
        d = interp.decide(args[0]) if args else False
        if d is not None:
            return Const(d)
        return CondV("truthy", args[0])
    if name == "abs":
        return apply_ufunc(interp, "abs", args[0])
    if name in ("min", "max", "sum"):
        if len(args) == 1:
            return reduce_call(interp, name, args[0], None)
        if all(isinstance(a, Num) and a.p.is_const() for a in args):
            f = min if name == "min" else max
            return Num(Poly.const(f(a.p.as_const() for a in args)))
        return Term(name, args)
    if name == "isinstance":
        v, t = args
        r = _isinstance(interp, v, t)
        if r is None:
            return CondV("opaque", "isinstance", v, t)
        return Const(r)
    if name == "print":
        return Const(None)
    if name in ("any", "all"):
        return CondV("opaque", name, args[0])
    if name == "round":
        return Term("round", args)
    if name == "type":
        return Term("type", args)
    if name == "getattr" and len(args) >= 2 and isinstance(args[1], Const):
        return interp.getattr(args[0], args[1].v, node, cc)
    if name == "dict":
        return DictV({k: v for k, v in kwargs.items()})
    if name == "iter":
        return args[0]
    if name == "next":
        return Term("next", args)
    if name == "map":
        return Term("map", args)
    if name in ("ValueError", "TypeError", "IndexError", "KeyError", "AttributeError", "NotImplementedError", "Exception"):
        return Term("exception", [Const(name)] + list(args))
    if name == "hasattr":
        return CondV("opaque", "hasattr", *args)
    if name == "open":
        return ObjV(ext="file", origin=Term("open", args, kwargs))
    return None


def _isinstance(interp, v, t):
    names = []
    ts = t.items if isinstance(t, TupleV) else [t]
    for x in ts:
        if isinstance(x, ExtV):
            names.append(x.dotted)
        elif isinstance(x, ClassV):
            names.append(x.ci)
        else:
            return None
    if isinstance(v, ObjV) and v.cls is not None:
        return any((n in v.cls.mro()) for n in names if not isinstance(n, str))
    if is_sparse(v):
        fmt = v.attrs["__fmt__"].v
        hit = False
        for n in names:
            if isinstance(n, str) and n.startswith("scipy.sparse."):
                if n.split(".")[-1].startswith(fmt):
                    hit = True
        return hit
    if isinstance(v, (Grid,)) or (isinstance(v, ObjV) and v.ext == "ndarray"):
        return any(isinstance(n, str) and n == "numpy.ndarray" for n in names)
    if isinstance(v, Num):
        return any(isinstance(n, str) and n in ("builtins.int", "builtins.float", "numbers.Number") for n in names) or None
    if isinstance(v, TupleV):
        return any(isinstance(n, str) and n == "builtins.tuple" for n in names)
    if isinstance(v, ListV):
        return any(isinstance(n, str) and n == "builtins." + ("set" if v.kind == "set" else "list") for n in names)
    return None


# ---------------------------------------------------------------------------------------------------------------------
def call_method(interp, recv: V, name: str, args, kwargs, node, cc) -> Optional[V]:
    from . import farray as _fa
    if _fa.is_farray(recv) and name in ("ravel", "flatten", "copy", "astype", "tolist"):
        if name in ("copy", "astype"):
            return recv
        fr = _fa.ravel(interp, recv)
        if fr is not None:
            return fr
    if isinstance(recv, Term) and recv.op == "bcast_rows" and name in ("ravel", "flatten"):
        p_ = interp.fresh_idx("p")
        return _fa.mk([Loop(p_, recv.args[1].p, copy_items(recv.args[0].items))])
    if isinstance(recv, ListV):
        return list_method(interp, recv, name, args, kwargs, node)
    if name in ("argmin", "argmax", "argsort") and isinstance(recv, (Grid, Term)) and not (isinstance(recv, Term) and recv.op == "sparse"):
        # method form == function form
        return Term(name, [recv], {"axis": Const(_axis(kwargs, args, 0))})
    if isinstance(recv, ObjV) and recv.ext == "sparse":
        return sparse_method(interp, recv, name, args, kwargs, node)
    if isinstance(recv, ObjV) and recv.ext == "ndarray":
        if name in ("copy", "squeeze", "flatten", "ravel", "astype"):
            return ndarray_value(interp, recv) if not recv.stores else Term("ndarray", [Const(recv.uid)], {"arr": recv})
        return Term("arr." + name, [Term("ndarray", [Const(recv.uid)], {"arr": recv})] + list(args), kwargs)
    if isinstance(recv, Grid):
        return grid_method(interp, recv, name, args, kwargs, node)
    if isinstance(recv, DictV):
        if name == "keys":
            return Term("dict_keys", [Const(id(recv))], {"dict": recv})
        if name == "items":
            return Term("dict_items", [Const(id(recv))], {"dict": recv})
        if name == "values":
            return Term("dict_values", [Const(id(recv))], {"dict": recv})
        if name == "get" and args and isinstance(args[0], Const):
            if args[0].v in recv.d:
                return recv.d[args[0].v]
            return args[1] if len(args) > 1 else Const(None)
        return None
    if isinstance(recv, Const) and isinstance(recv.v, str):
        return str_method(interp, recv, name, args, kwargs)
    if isinstance(recv, Term):
        if recv.op == "Rotation.from_quat" and name == "as_quat" and recv.args:
            # scipy: as_quat() returns the stored (normalised) quaternions; canonical=True flips signs so that w >= 0
            can = kwargs.get("canonical", args[0] if args else None)
            if can is None or (isinstance(can, Const) and can.v is False):
                return recv.args[0]
            a0 = recv.args[0]
            if isinstance(a0, ObjV) and a0.ext == "ndarray":
                a0 = ndarray_value(interp, a0)
            if isinstance(a0, Grid):
                return _map_elem(interp, a0, lambda p: Poly.app("canonical_sign", p), "canonical_quat")
            return Term("canonical_quat", [recv.args[0]])
        if name in ("squeeze", "copy", "flatten", "ravel", "astype", "tolist", "toarray") and recv.op not in ("sparse",):
            if name in ("squeeze", "copy", "astype"):
                return recv
            return Term(name, [recv])
        return Term("m." + name, [recv] + list(args), kwargs)
    if isinstance(recv, (Num, TupleV, CondV)):
        if name in ("squeeze", "copy", "astype", "flatten", "item"):
            return recv
        return Term("m." + name, [recv] + list(args), kwargs)
    if isinstance(recv, ObjV):
        return Term("m." + name, [recv] + list(args), kwargs)
    return None


def list_method(interp, l: ListV, name, args, kwargs, node):
    if name == "append":
        interp.list_append(l, args[0])
        return Const(None)
    if name == "extend":
        interp.list_extend(l, args[0])
        return Const(None)
    if name == "add" and l.kind == "set":
        interp.list_append(l, args[0])
        return Const(None)
    if name == "pop":
        fl = flat_elems(l.items)
        ln = items_len(l.items)
        k = args[0] if args else Num(-1)
        interp.index_obligations.append((node, interp.where(), ln, k.p if isinstance(k, Num) else Poly.top("pop index"),
                                         interp.guards(), "list.pop"))
        l.log.append(("pop", k, tuple(interp.frames)))
        if interp.frames and any(f.fid > l.born for f in interp.frames):
            l.items = [Splice(Top("pop inside loop/guard"))]
            return Top("pop inside loop/guard")
        if isinstance(k, Num) and k.p.is_const():
            kk = int(k.p.as_const())
            if fl is not None and -len(fl) <= kk < len(fl):
                v = fl[kk]
                del l.items[kk if kk >= 0 else len(fl) + kk]
                return v
            if kk == 0 and l.items:
                first = l.items[0]
                if isinstance(first, Elem):
                    del l.items[0]
                    return first.value
                if isinstance(first, Loop) and len(first.items) == 1 and isinstance(first.items[0], Elem):
                    v = subst(first.items[0].value, {first.idx: Poly.const(0)})
                    ni = interp.fresh_idx("i")
                    l.items[0] = Loop(ni, first.extent - 1, [Elem(subst(first.items[0].value, {first.idx: Poly.atom(ni) + 1}))],
                                      None, first.info)
                    return v
            if kk == -1 and l.items and isinstance(l.items[-1], Elem):
                return l.items.pop().value
        l.items = [Splice(Top("pop with unknown position"))]
        return Top("pop with unknown position")
    if name == "sort":
        l.log.append(("sort", kwargs, tuple(interp.frames)))
        rev = kwargs.get("reverse")
        l.sorted_flag = "DESC" if (isinstance(rev, Const) and rev.v) else "ASC"
        if flat_elems(l.items) is not None and len(l.items) <= 1:
            return Const(None)
        l.items = [Splice(Term("sorted", [interp.new_list(copy_items(l.items))], kwargs))]
        return Const(None)
    if name == "copy":
        return interp.new_list(copy_items(l.items), l.kind)
    if name == "index":
        return Term("list_index", [l] + list(args))
    if name == "insert":
        if isinstance(args[0], Num) and args[0].p == Poly.const(0):
            l.items.insert(0, Elem(args[1]))
            return Const(None)
        l.items = [Splice(Top("insert at unknown position"))]
        return Const(None)
    if name in ("intersection", "difference", "union") and l.kind == "set":
        return Term("set_" + name, [l] + list(args))
    if name == "count":
        return Term("list_count", [l] + list(args))
    return None


def grid_method(interp, g: Grid, name, args, kwargs, node):
    if name in ("copy", "astype", "squeeze"):
        return g
    if name in ("flatten", "ravel"):
        flat = []
        for dmn in g.dims:
            flat.extend(dmn)
        return Grid([flat], g.elem)
    if name == "tolist":
        l = interp.new_list()
        interp._splice_into(l.items, g)
        return l
    if name in ("sum", "mean", "max", "min", "prod"):
        return reduce_call(interp, name, g, _axis(kwargs, args, 0))
    if name in ("any", "all"):
        return CondV("opaque", name, g)
    if name == "reshape":
        sh = _shape_arg(args[0]) if len(args) == 1 else _shape_arg(TupleV(args))
        r = grid_reshape(g, sh) if sh else None
        if r is not None:
            return r
        return Term("reshape", [g, TupleV([Num(x) for x in sh]) if sh else Top("shape")])
    if name in ("argsort", "argmin", "argmax", "dot", "transpose", "round", "nonzero", "cumsum", "item", "to_numpy"):
        return Term(name, [g] + list(args), kwargs)
    if name == "toarray":
        return g
    return None


def grid_reshape(g: Grid, shape) -> Optional[Grid]:
    """row-major reshape of a Grid: the axes (major -> minor over all dimensions) are regrouped so that each new dimension is a run of
    consecutive axes whose extents multiply to the requested length; one -1 is inferred; None when the regrouping would split an axis"""
    axes = [a for dmn in g.dims for a in dmn]
    total = Poly.const(1)
    for _, e in axes:
        total = total * e
    shape = list(shape)
    neg = [k for k, x in enumerate(shape) if x.is_const() and x.as_const() == -1]
    if len(neg) > 1:
        return None
    if neg:
        known = Poly.const(1)
        for k, x in enumerate(shape):
            if k != neg[0]:
                known = known * x
        # total / known must be a product of a run of axes: found by the greedy regrouping below, so just mark it
        shape[neg[0]] = None
    dims = []
    pos = 0
    for k, want in enumerate(shape):
        run = []
        prod = Poly.const(1)
        if want is None:
            # consume axes until what remains matches the product of the remaining requested extents
            rest = Poly.const(1)
            for x in shape[k + 1:]:
                rest = rest * x
            while pos < len(axes):
                tail = Poly.const(1)
                for _, e in axes[pos:]:
                    tail = tail * e
                if tail == rest:
                    break
                run.append(axes[pos])
                pos += 1
            dims.append(run if run else None)
            continue
        if want == Poly.const(1):
            dims.append(None)           # a new axis of length 1
            continue
        while pos < len(axes) and prod != want:
            run.append(axes[pos])
            prod = prod * axes[pos][1]
            pos += 1
        if prod != want:
            return None
        dims.append(run)
    if pos != len(axes):
        # trailing unit axes of the source are fine, anything else is a mismatch
        if any(e != Poly.const(1) for _, e in axes[pos:]):
            return None
    out = []
    for d in dims:
        if d is None:
            out.append([(("idx", f"unit#{id(g)}_{len(out)}"), Poly.const(1))])
        else:
            out.append(d)
    return Grid(out, g.elem)


def sparse_shape(interp, o, depth=0):
    """(rows, cols) polys of an abstract sparse object when derivable"""
    if depth > 8:
        return None
    if isinstance(o, Term) and o.op == "sparse":
        ob = o.kw.get("obj")
        if isinstance(ob, ObjV):
            return sparse_shape(interp, ob, depth + 1)
        return None
    if not is_sparse(o):
        if isinstance(o, Grid) and o.ndim == 2:
            return o.dim_len(0), o.dim_len(1)
        if isinstance(o, Term) and o.op == "toarray":
            return sparse_shape(interp, o.args[0], depth + 1)
        return None
    sh = o.attrs.get("shape")
    if isinstance(sh, TupleV) and len(sh.items) == 2 and all(isinstance(x, Num) for x in sh.items):
        return sh.items[0].p, sh.items[1].p
    org = o.origin
    if not isinstance(org, Term):
        return None
    if org.op in ("triplets", "diags"):
        s2 = org.kw.get("shape")
        if isinstance(s2, TupleV) and len(s2.items) == 2 and all(isinstance(x, Num) for x in s2.items):
            return s2.items[0].p, s2.items[1].p
        return None
    if org.op in ("spadd", "spsub", "scale", "spscale_array") or org.op in ("tocoo", "tocsr", "tocsc", "copy", "astype"):
        for a in org.args:
            r = sparse_shape(interp, a, depth + 1)
            if r is not None:
                return r
        return None
    if org.op == "from_dense":
        if org.args:
            r = sparse_shape(interp, org.args[0], depth + 1)
            return r if r is not None else dense_shape(org.args[0])
        return None
    if org.op == "bmat" and org.args and isinstance(org.args[0], Term) and org.args[0].op == "m.reshape":
        rs = org.args[0]
        shp = rs.args[1:]
        if len(shp) == 1 and isinstance(shp[0], TupleV):
            shp = shp[0].items
        blk = None
        a0 = rs.args[0]
        if isinstance(a0, Term) and a0.op == "object_array" and isinstance(a0.args[0], ListV):
            st = list(a0.args[0].items)
            while st and blk is None:
                it = st.pop(0)
                if isinstance(it, Elem) and not (isinstance(it.value, Const) and it.value.v is None):
                    blk = sparse_shape(interp, it.value, depth + 1)
                elif isinstance(it, (Rep, Loop, Guard)):
                    st = list(it.items) + st
        if blk is not None and len(shp) == 2 and all(isinstance(x, Num) for x in shp):
            return shp[0].p * blk[0], shp[1].p * blk[1]
    return None


def dense_shape(v, depth=0):
    """(rows, cols) of a dense 2-D value built from eye / ones / zeros and scalar arithmetic, else None"""
    if depth > 6:
        return None
    if isinstance(v, Grid) and v.ndim == 2:
        return v.dim_len(0), v.dim_len(1)
    if isinstance(v, Term):
        if v.op in ("eye", "identity") and v.args and isinstance(v.args[0], Num):
            n = v.args[0].p
            m = v.args[1].p if len(v.args) > 1 and isinstance(v.args[1], Num) else n
            return n, m
        if v.op in ("ones", "zeros", "full", "empty") and v.args:
            sh = _shape_arg(v.args[0])
            if sh and len(sh) == 2:
                return sh[0], sh[1]
        if v.op in ("sub", "add", "mult", "div", "neg", "abs", "astype", "copy"):
            for a in v.args:
                if not isinstance(a, Num):
                    r = dense_shape(a, depth + 1)
                    if r is not None:
                        return r
    return None


def sparse_method(interp, o: ObjV, name, args, kwargs, node):
    if name in ("tocoo", "tocsr", "tocsc", "copy", "astype", "todok", "tolil"):
        return sparse_convert(interp, o, name)
    if name in ("toarray", "todense"):
        sh = sparse_shape(interp, o)
        fz = _freeze_sparse(o)
        if sh is not None:
            i = interp.fresh_idx("r")
            j = interp.fresh_idx("c")
            g = Grid([[(i, sh[0])], [(j, sh[1])]], Num(Poly.app("entry", f"sp#{o.uid}", Poly.atom(i), Poly.atom(j))))
            interp.dense_of = getattr(interp, "dense_of", {})
            interp.dense_of[f"sp#{o.uid}"] = o
            return g
        return Term("toarray", [fz])
    if name == "sum":
        ax = _axis(kwargs, args, 0)
        return Term("spsum", [_freeze_sparse(o)], {"axis": Const(ax)})
    if name == "dot":
        other = args[0]
        return new_sparse(Term("spdot", [_freeze_sparse(o), _freeze_sparse(other) if is_sparse(other) else other]),
                          f"dot#{o.uid}", ("dot",), None, fmt="csr")
    if name == "transpose":
        return sparse_convert(interp, o, "transpose")
    if name in ("setdiag",):
        o.stores.append((tuple(interp.frames), Const("setdiag"), args[0], None, node))
        return Const(None)
    if name in ("multiply", "power", "maximum", "minimum"):
        return new_sparse(Term("sp" + name, [_freeze_sparse(o)] + list(args)), f"{name}#{o.uid}", (name,), None)
    if name in ("eliminate_zeros", "sum_duplicates", "sort_indices"):
        o.log.append((name,))
        return Const(None)
    if name == "diagonal":
        return Term("spdiagonal", [_freeze_sparse(o)])
    if name == "getrow":
        return Term("sprow", [_freeze_sparse(o)] + list(args))
    return None


def str_method(interp, s: Const, name, args, kwargs):
    try:
        if all(isinstance(a, Const) for a in args):
            a = [x.v for x in args]
            if name in ("split", "startswith", "endswith", "isnumeric", "strip", "lower", "upper", "replace", "zfill",
                        "format", "join", "isdigit", "find", "count", "rstrip", "lstrip"):
                r = getattr(s.v, name)(*a)
                if isinstance(r, list):
                    return interp.new_list([Elem(Const(x)) for x in r])
                if isinstance(r, (bool, str)):
                    return Const(r)
                if isinstance(r, int):
                    return Num(r)
    except Exception:
        return Top("string method failed")
    return Term("str." + name, [s] + list(args))
