"""Abstract values of the kernel interpreter (E5).  No concrete arrays exist anywhere: every value is a term.

Num      scalar numeric value: exact Laurent polynomial over atoms (sa.alg.Poly)
Const    python constant (str, bool, None, tuples of constants)
CondV    boolean condition term (comparison of polys, truthiness, and/or/not, opaque)
Grid     immutable array: numpy dims, each a list of index axes (major -> minor) with symbolic extents; elem in terms of
         the index atoms (LAYOUT domain)
ListV    mutable python list: tree of Elem / Loop / Guard / Rep / Splice items (skeleton = positional correspondence)
ObjV     mutable object (repo class instance, sparse matrix, ndarray under construction, ...)
Term     immutable symbolic library value (pure constructor applications kept uninterpreted)
Top      unknown (reason)
"""
from __future__ import annotations

import itertools
from typing import List, Dict, Any, Optional, Tuple

from .alg import Poly


class V:
    pass


class Top(V):
    def __init__(self, reason=""):
        self.reason = reason

    def __repr__(self):
        return f"Top({self.reason})"


class Num(V):
    __slots__ = ("p",)

    def __init__(self, p):
        self.p = Poly.lift(p)

    def __repr__(self):
        return f"Num({self.p.pretty()})"

    def __eq__(self, o):
        return isinstance(o, Num) and self.p == o.p

    def __hash__(self):
        return hash(("Num", self.p))


class Const(V):
    __slots__ = ("v",)

    def __init__(self, v):
        self.v = v

    def __repr__(self):
        return f"Const({self.v!r})"

    def __eq__(self, o):
        return isinstance(o, Const) and self.v == o.v and type(self.v) == type(o.v)

    def __hash__(self):
        return hash(("Const", repr(self.v)))


class CondV(V):
    """kind: 'cmp' (op, lhs:Poly, rhs:Poly) | 'truthy' (V) | 'not' (c) | 'and' (c1, c2..) | 'or' | 'opaque' (text, args)
             | 'in' (item V, container V) | 'is' (a, b)"""

    def __init__(self, kind, *args):
        self.kind = kind
        self.args = args

    def __repr__(self):
        return f"Cond({self.pretty()})"

    def pretty(self):
        if self.kind == "cmp":
            op, l, r = self.args
            return f"{l.pretty()} {op} {r.pretty()}"
        if self.kind == "not":
            return f"not ({vstr(self.args[0])})"
        if self.kind in ("and", "or"):
            return f" {self.kind} ".join("(" + vstr(a) + ")" for a in self.args)
        return f"{self.kind}(" + ", ".join(vstr(a) for a in self.args) + ")"

    def key(self):
        return vkey(self)

    def __eq__(self, o):
        return isinstance(o, CondV) and vkey(self) == vkey(o)

    def __hash__(self):
        return hash(vkey(self))


class TupleV(V):
    def __init__(self, items):
        self.items = list(items)

    def __repr__(self):
        return "Tuple(" + ", ".join(map(repr, self.items)) + ")"


class DictV(V):
    def __init__(self, d=None):
        self.d = dict(d or {})
        self.stores = []


class FuncV(V):
    def __init__(self, fi, self_obj=None, bound_cls=None):
        self.fi = fi
        self.self_obj = self_obj
        self.bound_cls = bound_cls

    def __repr__(self):
        return f"Func({self.fi.where})"


class ClassV(V):
    def __init__(self, ci):
        self.ci = ci

    def __repr__(self):
        return f"Class({self.ci.name})"


class ExtV(V):
    def __init__(self, dotted):
        self.dotted = dotted

    def __repr__(self):
        return f"Ext({self.dotted})"


class LambdaV(V):
    def __init__(self, node, env, module):
        self.node = node
        self.env = env
        self.module = module


class BoundExt(V):
    """method of a non-repo abstract value: recv.name"""

    def __init__(self, recv, name):
        self.recv = recv
        self.name = name

    def __repr__(self):
        return f"BoundExt({type(self.recv).__name__}.{self.name})"


_uid = itertools.count(1)


class ObjV(V):
    def __init__(self, cls=None, ext=None, attrs=None, origin=None, tag=""):
        self.cls = cls
        self.ext = ext
        self.attrs: Dict[str, V] = dict(attrs or {})
        self.origin = origin
        self.tag = tag
        self.uid = next(_uid)
        self.stores = []       # for array-like objects: (frames, index V, value V, aug op or None)
        self.log = []

    def __repr__(self):
        n = self.cls.name if self.cls is not None else (self.ext or "obj")
        return f"Obj<{n}#{self.uid}{' ' + self.tag if self.tag else ''}>"


class Term(V):
    def __init__(self, op: str, args=(), kw=None):
        self.op = op
        self.args = tuple(args)
        self.kw = dict(kw or {})

    def __repr__(self):
        return vstr(self)


class Grid(V):
    """dims: list of numpy dimensions; each a list of (idx_atom, extent Poly) major->minor.  elem: V over idx atoms."""

    def __init__(self, dims, elem):
        self.dims = [list(d) for d in dims]
        self.elem = elem

    @property
    def ndim(self):
        return len(self.dims)

    def dim_len(self, k=0) -> Poly:
        p = Poly.const(1)
        for _, e in self.dims[k]:
            p = p * e
        return p

    def __repr__(self):
        return vstr(self)


class Elem:
    __slots__ = ("value",)

    def __init__(self, value):
        self.value = value


class Loop:
    def __init__(self, idx, extent, items=None, fid=None, info=None):
        self.idx = idx
        self.extent = extent
        self.items = items if items is not None else []
        self.fid = fid
        self.info = info


class Guard:
    def __init__(self, cond, items=None, fid=None):
        self.cond = cond
        self.items = items if items is not None else []
        self.fid = fid


class Rep:
    def __init__(self, items, count):
        self.items = items
        self.count = count


class Splice:
    def __init__(self, value):
        self.value = value


class ListV(V):
    def __init__(self, items=None, kind="list"):
        self.items = items if items is not None else []
        self.kind = kind           # 'list' | 'set' | 'gen'
        self.uid = next(_uid)
        self.open_path = []        # [(fid, container list)]
        self.born = 0
        self.sorted_flag = None
        self.log = []              # in-place operations applied ('sort', 'pop', ...)

    def __repr__(self):
        return vstr(self)


# ---------------------------------------------------------------------------------------------------------------------
def is_top(v) -> bool:
    if isinstance(v, Top):
        return True
    if isinstance(v, Num):
        return v.p.has_top()
    return False


def top_reason(v) -> str:
    if isinstance(v, Top):
        return v.reason
    if isinstance(v, Num) and v.p.has_top():
        return "; ".join(v.p.top_reasons())
    return ""


def contains_top(v, _seen=None) -> Optional[str]:
    """deep search for Top; returns reason or None"""
    if _seen is None:
        _seen = set()
    if id(v) in _seen:
        return None
    _seen.add(id(v))
    if isinstance(v, Top):
        return v.reason or "unknown"
    if isinstance(v, Num):
        return "; ".join(v.p.top_reasons()) if v.p.has_top() else None
    if isinstance(v, Poly):
        return "; ".join(v.top_reasons()) if v.has_top() else None
    if isinstance(v, CondV):
        for a in v.args:
            r = contains_top(a, _seen)
            if r:
                return r
        return None
    if isinstance(v, TupleV):
        for a in v.items:
            r = contains_top(a, _seen)
            if r:
                return r
        return None
    if isinstance(v, Term):
        for a in list(v.args) + list(v.kw.values()):
            r = contains_top(a, _seen)
            if r:
                return r
        return None
    if isinstance(v, Grid):
        for d in v.dims:
            for _, e in d:
                if e.has_top():
                    return "; ".join(e.top_reasons())
        return contains_top(v.elem, _seen)
    if isinstance(v, ListV):
        return _items_top(v.items, _seen)
    if isinstance(v, (list, tuple)):
        for a in v:
            r = contains_top(a, _seen)
            if r:
                return r
    return None


def _items_top(items, seen):
    for it in items:
        if isinstance(it, Elem):
            r = contains_top(it.value, seen)
        elif isinstance(it, Loop):
            r = ("; ".join(it.extent.top_reasons()) if it.extent.has_top() else None) or _items_top(it.items, seen)
        elif isinstance(it, Guard):
            r = contains_top(it.cond, seen) or _items_top(it.items, seen)
        elif isinstance(it, Rep):
            r = _items_top(it.items, seen)
        elif isinstance(it, Splice):
            r = contains_top(it.value, seen)
        else:
            r = None
        if r:
            return r
    return None


def vstr(v, depth=0) -> str:
    if depth > 6:
        return "..."
    if isinstance(v, Num):
        return v.p.pretty()
    if isinstance(v, Poly):
        return v.pretty()
    if isinstance(v, Const):
        return repr(v.v)
    if isinstance(v, Top):
        return f"TOP<{v.reason}>"
    if isinstance(v, CondV):
        return v.pretty()
    if isinstance(v, TupleV):
        return "(" + ", ".join(vstr(x, depth + 1) for x in v.items) + ")"
    if isinstance(v, Term):
        a = [vstr(x, depth + 1) for x in v.args] + [f"{k}={vstr(x, depth + 1)}" for k, x in v.kw.items()]
        return f"{v.op}(" + ", ".join(a) + ")"
    if isinstance(v, Grid):
        ds = []
        for d in v.dims:
            ds.append("*".join(f"{a[1]}<{e.pretty()}" for a, e in d) or "1")
        return "Grid[" + " ; ".join(ds) + "]{" + vstr(v.elem, depth + 1) + "}"
    if isinstance(v, ListV):
        return ("set" if v.kind == "set" else "list") + "[" + items_str(v.items, depth + 1) + "]"
    if isinstance(v, (ObjV, FuncV, ClassV, ExtV, BoundExt)):
        return repr(v)
    if isinstance(v, DictV):
        return "dict{" + ", ".join(f"{k!r}: {vstr(x, depth + 1)}" for k, x in v.d.items()) + "}"
    return repr(v)


def items_str(items, depth=0) -> str:
    out = []
    for it in items:
        if isinstance(it, Elem):
            out.append(vstr(it.value, depth))
        elif isinstance(it, Loop):
            out.append(f"for {it.idx[1]}<{it.extent.pretty()}: [" + items_str(it.items, depth + 1) + "]")
        elif isinstance(it, Guard):
            out.append(f"if {vstr(it.cond, depth)}: [" + items_str(it.items, depth + 1) + "]")
        elif isinstance(it, Rep):
            out.append("[" + items_str(it.items, depth + 1) + f"]*{it.count.pretty()}")
        elif isinstance(it, Splice):
            out.append("*" + vstr(it.value, depth))
    return ", ".join(out)


def vkey(v):
    """hashable structural key (mutable objects by identity)"""
    if isinstance(v, Num):
        return ("N", v.p)
    if isinstance(v, Poly):
        return ("P", v)
    if isinstance(v, Const):
        return ("C", repr(v.v))
    if isinstance(v, Top):
        return ("T", v.reason)
    if isinstance(v, CondV):
        return ("Cond", v.kind) + tuple(vkey(a) if isinstance(a, (V, Poly)) else a for a in v.args)
    if isinstance(v, TupleV):
        return ("Tup",) + tuple(vkey(a) for a in v.items)
    if isinstance(v, Term):
        return ("Term", v.op) + tuple(vkey(a) for a in v.args) + tuple((k, vkey(x)) for k, x in sorted(v.kw.items()))
    if isinstance(v, Grid):
        return ("Grid", tuple(tuple((a, e) for a, e in d) for d in v.dims), vkey(v.elem))
    if isinstance(v, (ObjV, ListV, DictV)):
        return ("id", id(v))
    if isinstance(v, FuncV):
        return ("F", v.fi.where, id(v.self_obj))
    if isinstance(v, ExtV):
        return ("E", v.dotted)
    if isinstance(v, ClassV):
        return ("Cl", v.ci.qualname)
    return ("?", repr(v))


def subst(v, mapping: Dict[Any, Poly]):
    """substitute atoms -> Poly inside a value (mutable containers are updated in place and returned)"""
    if not mapping:
        return v
    if isinstance(v, Num):
        return Num(v.p.subs(mapping))
    if isinstance(v, Poly):
        return v.subs(mapping)
    if isinstance(v, CondV):
        return CondV(v.kind, *[subst(a, mapping) if isinstance(a, (V, Poly)) else a for a in v.args])
    if isinstance(v, TupleV):
        return TupleV([subst(a, mapping) for a in v.items])
    if isinstance(v, Term):
        return Term(v.op, [subst(a, mapping) for a in v.args], {k: subst(x, mapping) for k, x in v.kw.items()})
    if isinstance(v, Grid):
        return Grid([[(a, e.subs(mapping)) for a, e in d] for d in v.dims], subst(v.elem, mapping))
    if isinstance(v, ListV):
        subst_items(v.items, mapping)
        return v
    return v


def subst_items(items, mapping):
    for it in items:
        if isinstance(it, Elem):
            it.value = subst(it.value, mapping)
        elif isinstance(it, Loop):
            it.extent = it.extent.subs(mapping)
            subst_items(it.items, mapping)
        elif isinstance(it, Guard):
            it.cond = subst(it.cond, mapping)
            subst_items(it.items, mapping)
        elif isinstance(it, Rep):
            it.count = it.count.subs(mapping)
            subst_items(it.items, mapping)
        elif isinstance(it, Splice):
            it.value = subst(it.value, mapping)


def copy_items(items):
    out = []
    for it in items:
        if isinstance(it, Elem):
            out.append(Elem(it.value))
        elif isinstance(it, Loop):
            out.append(Loop(it.idx, it.extent, copy_items(it.items), it.fid, it.info))
        elif isinstance(it, Guard):
            out.append(Guard(it.cond, copy_items(it.items), it.fid))
        elif isinstance(it, Rep):
            out.append(Rep(copy_items(it.items), it.count))
        elif isinstance(it, Splice):
            out.append(Splice(it.value))
    return out


def items_len(items) -> Optional[Poly]:
    """exact length of a list skeleton, None if it depends on a guard / unknown splice"""
    total = Poly.const(0)
    for it in items:
        if isinstance(it, Elem):
            total = total + 1
        elif isinstance(it, Loop):
            inner = items_len(it.items)
            if inner is None:
                return None
            total = total + it.extent * inner
        elif isinstance(it, Rep):
            inner = items_len(it.items)
            if inner is None:
                return None
            total = total + it.count * inner
        elif isinstance(it, Splice):
            l = value_len(it.value)
            if l is None:
                return None
            total = total + l
        else:
            return None
    return total


def value_len(v) -> Optional[Poly]:
    if isinstance(v, ListV):
        return items_len(v.items)
    if isinstance(v, Grid):
        if not v.dims:
            return None
        return v.dim_len(0)
    if isinstance(v, TupleV):
        return Poly.const(len(v.items))
    if isinstance(v, Const) and isinstance(v.v, (str, tuple)):
        return Poly.const(len(v.v))
    return None


def flat_elems(items) -> Optional[List[V]]:
    """if the skeleton is a plain literal sequence, its element values"""
    out = []
    for it in items:
        if isinstance(it, Elem):
            out.append(it.value)
        else:
            return None
    return out


def skeleton(items):
    """the loop/guard nesting of a list with element values erased (positional-correspondence signature)"""
    out = []
    for it in items:
        if isinstance(it, Elem):
            out.append("e")
        elif isinstance(it, Loop):
            out.append(("loop", it.idx, it.extent, tuple(skeleton(it.items))))
        elif isinstance(it, Guard):
            out.append(("guard", vkey(it.cond), tuple(skeleton(it.items))))
        elif isinstance(it, Rep):
            out.append(("rep", it.count, tuple(skeleton(it.items))))
        elif isinstance(it, Splice):
            out.append(("splice", vkey(it.value)))
    return tuple(out)


def same_grid(a, b) -> bool:
    """equality of two Grids up to the names of their index atoms"""
    if not (isinstance(a, Grid) and isinstance(b, Grid)) or len(a.dims) != len(b.dims):
        return False
    m = {}
    for da, db in zip(a.dims, b.dims):
        if len(da) != len(db):
            return False
        for (ia, ea), (ib, eb) in zip(da, db):
            if ea != eb:
                return False
            if ia != ib:
                m[ib] = Poly.atom(ia)
    return vkey(subst(b.elem, m)) == vkey(a.elem)
