"""Shared analyses of molgri/space/voronoi.py, rotobj.py, utils.py for C03, C04, C15 (and C14 via C04's fold)."""
from __future__ import annotations

from fractions import Fraction

import ast

from .alg import Poly
from .interp import Interp, Hooks
from .values import *
from . import transfer as T
from .spterm import underlying, show
from .model import AnalysisError, src, norm_stmt

VO = "molgri.space.voronoi"
RO = "molgri.space.rotobj"
UT = "molgri.space.utils"
N = Poly.sym("N")


def find_terms(v, pred, _seen=None, out=None):
    """all Term nodes inside a value satisfying pred (deep)"""
    out = [] if out is None else out
    _seen = set() if _seen is None else _seen
    if id(v) in _seen:
        return out
    _seen.add(id(v))
    if isinstance(v, Term):
        if pred(v):
            out.append(v)
        for a in list(v.args) + list(v.kw.values()):
            find_terms(a, pred, _seen, out)
    elif isinstance(v, TupleV):
        for a in v.items:
            find_terms(a, pred, _seen, out)
    elif isinstance(v, Grid):
        find_terms(v.elem, pred, _seen, out)
    elif isinstance(v, CondV):
        for a in v.args:
            if isinstance(a, V):
                find_terms(a, pred, _seen, out)
    elif isinstance(v, ListV):
        st = list(v.items)
        while st:
            it = st.pop()
            if isinstance(it, Elem):
                find_terms(it.value, pred, _seen, out)
            elif isinstance(it, Splice):
                find_terms(it.value, pred, _seen, out)
            elif isinstance(it, (Loop, Guard, Rep)):
                st.extend(it.items)
    return out


class VoroHooks(Hooks):
    """numerical leaves are kept as opaque terms"""

    def call(self, interp, fv, args, kwargs, node):
        if isinstance(fv, FuncV) and fv.fi.name in ("_calculate_center_distances", "_calculate_borders") and fv.self_obj is not None \
                and getattr(self, "opaque_pair_functions", True):
            return Num(Poly.app(fv.fi.name, *[a.p if isinstance(a, Num) else Poly.top("arg") for a in args]))
        if isinstance(fv, FuncV) and fv.fi.module.name == UT and fv.fi.name not in ("find_inverse_quaternion",):
            return Term(fv.fi.name, args, kwargs)
        return None


def pairwise_matrix(ctx, repo, pid, dim, extra_kwargs=None):
    """MIRROR + LIN on AbstractVoronoi._calculate_N_N_array (the full-sphere pairwise matrices), for all three properties"""
    ci = repo.cls(VO, "RotobjVoronoi")
    fi = ci.find_method("_calculate_N_N_array")
    if fi is None:
        raise AnalysisError("anchor vanished: AbstractVoronoi._calculate_N_N_array")
    ctx.analysed(fi)
    where = fi.where
    guards = {}
    for prop in ("adjacency", "center_distances", "border_len"):
        interp = Interp(repo, VoroHooks())
        o = ObjV(cls=ci)
        i = interp.fresh_idx("g")
        o.attrs["reduced_regions"] = ListV([Loop(i, N, [Elem(Term("region", [Num(Poly.atom(i))]))])])
        o.attrs["regions"] = o.attrs["reduced_regions"]
        o.attrs["centers"] = T.mat(interp, "C", N, Poly.const(dim))
        kwargs_ = {"sel_property": Const(prop)}
        for k_, v_ in (extra_kwargs or {}).items():
            kwargs_[k_] = Const(v_) if v_ is not None else Term("opaque_option", [Const(k_)])
        res = interp.call_function(fi, [], kwargs_, self_obj=o)
        for f in interp.functions_entered:
            ctx.analysed(f)
        tag = f"{pid}.pair{dim}d.{prop}"
        org, _ = underlying(res)
        if not (isinstance(org, Term) and org.op == "triplets"):
            ctx.inconclusive("MIRROR", tag, "pairwise matrix not derived as (values, (rows, cols))", where, witness=contains_top(res) or show(res)[:300])
            continue
        vals, rows, cols = org.args
        shape = org.kw.get("shape")
        ctx.instance("MIRROR", 3)
        ctx.check(isinstance(shape, TupleV) and all(isinstance(x, Num) and x.p == N for x in shape.items), "LAYOUT", f"{tag}.shape",
                  "matrix has shape (N, N), N = number of centres", where, "coo_array(..., shape=(N, N))", witness=vstr(shape))

        def unwrap(lst):
            if not (isinstance(lst, ListV) and len(lst.items) == 1 and isinstance(lst.items[0], Loop)):
                return None
            lp = lst.items[0]
            if not (len(lp.items) == 1 and isinstance(lp.items[0], Guard)):
                return None
            g = lp.items[0]
            chain_ = [g]
            while len(g.items) == 1 and isinstance(g.items[0], Guard):
                g = g.items[0]
                chain_.append(g)
            fl = flat_elems(g.items)
            if fl is None:
                return None
            # the guard that carries the shared-vertex test; any other guard on the path is an extra condition
            thr_g = [x for x in chain_ if "len(" in vstr(x.cond) and ("intersection" in vstr(x.cond) or "bitand" in vstr(x.cond))]
            main = thr_g[-1] if thr_g else g
            extras.setdefault(id(lst), [x.cond for x in chain_ if x is not main])
            return lp, main, fl
        extras = {}
        # `for i in range(N): for j in range(i+1, N):` enumerates the same pairs, in the same order, as combinations(range(N), 2):
        # the triangular nest is rewritten into one loop over the pair index k with i = comb_lo(k), j = comb_hi(k)
        tri_k = {}

        def triangular_to_comb(lst):
            if not (isinstance(lst, ListV) and len(lst.items) == 1 and isinstance(lst.items[0], Loop)):
                return lst
            lo_ = lst.items[0]
            if not (len(lo_.items) == 1 and isinstance(lo_.items[0], Loop) and lo_.extent == N):
                return lst
            li_ = lo_.items[0]
            ia_, ja_ = Poly.atom(lo_.idx), Poly.atom(li_.idx)
            if li_.extent != N - ia_ - 1:
                return lst
            key_ = (lo_.idx, li_.idx)
            if key_ not in tri_k:
                tri_k[key_] = interp.fresh_idx("k")
            k_ = tri_k[key_]
            lo_p, hi_p = Poly.app("comb_lo", Poly.atom(k_)), Poly.app("comb_hi", Poly.atom(k_))
            inner = copy_items(li_.items)
            subst_items(inner, {lo_.idx: lo_p, li_.idx: hi_p - lo_p - 1})
            return ListV([Loop(k_, N * (N - 1) * Fraction(1, 2), inner, info=("combinations", N))], lst.kind)
        rows, cols, vals = triangular_to_comb(rows), triangular_to_comb(cols), triangular_to_comb(vals)
        ur, uc, uv = unwrap(rows), unwrap(cols), unwrap(vals)
        if ur is None or uc is None or uv is None:
            top = contains_top(vals) or contains_top(rows) or contains_top(cols)
            ctx.inconclusive("MIRROR", tag, "emission lists are not `for pair: if adjacent: emit`", where, witness=top or vstr(rows)[:300])
            continue
        lp, g, rfl = ur
        extra_conds = extras.get(id(rows), [])
        ctx.instance("LIN")
        if extra_conds:
            ctx.violate("LIN", f"{tag}.extra_condition", "a pair of cells is entered only if it ALSO passes a condition that is not the "
                        "shared-vertex test: cells that share dim-1 Voronoi vertices but fail it are not neighbours in the matrix (adjacency "
                        "must be exactly `|shared reduced vertices| >= dim-1`)", where, "for index_tuple in combinations(...): ...",
                        witness="; ".join(vstr(c)[:160] for c in extra_conds))
        same = (uc[0].idx == lp.idx and uv[0].idx == lp.idx and vkey(uc[1].cond) == vkey(g.cond) == vkey(uv[1].cond))
        ctx.check(same, "PAIR", f"{tag}.aligned", "rows, columns and values are emitted in the same loop under the same guard", where,
                  witness="different loops/guards")
        info = lp.info
        ctx.check(isinstance(info, tuple) and info[0] == "combinations" and info[1] == N, "MIRROR", f"{tag}.pairs",
                  "pairs (i<j) range over all combinations of two of the N cells: no self pairs, each unordered pair once", where,
                  "combinations(range(N), 2)", witness=str(info)[:100])
        cfl, vfl = uc[2], uv[2]
        k = Poly.atom(lp.idx)
        lo, hi = Poly.app("comb_lo", k), Poly.app("comb_hi", k)
        idx_ok = len(rfl) == 2 and len(cfl) == 2 and all(isinstance(x, Num) for x in rfl + cfl) and \
            rfl[0].p == lo and rfl[1].p == hi and cfl[0].p == hi and cfl[1].p == lo
        val_ok = len(vfl) == 2 and vkey(vfl[0]) == vkey(vfl[1])
        if idx_ok and val_ok:
            ctx.ok("MIRROR", f"{tag}.mirror", "every emission (i,j,v) is mirrored by (j,i,v) with the same value under the same guard: "
                   "symmetric matrix with empty diagonal", where, derived=f"rows {vstr(rows)[:120]}")
        else:
            ctx.violate("MIRROR", f"{tag}.mirror", "emission of the pairwise matrix is not mirrored: the matrix is not symmetric / has "
                        "diagonal entries", where, "rows.extend([i, j]); columns.extend([j, i]); elements.extend([v, v])",
                        witness=f"rows {[vstr(x) for x in rfl]}, cols {[vstr(x) for x in cfl]}, values {[vstr(x)[:60] for x in vfl]}")
        # value of the entry
        v0 = vfl[0] if vfl else None
        if prop == "adjacency":
            ctx.check(isinstance(v0, Const) and v0.v is True, "KERNEL", f"{tag}.value", "adjacency entries are True", where, witness=vstr(v0))
        else:
            fn = "_calculate_center_distances" if prop == "center_distances" else "_calculate_borders"
            okv = isinstance(v0, Num) and v0.p == Poly.app(fn, lo, hi)
            ctx.check(okv, "KERNEL", f"{tag}.value", f"{prop} entry of the pair (i,j) is {fn}(i, j) of that same pair", where,
                      witness=vstr(v0)[:200])
        guards[prop] = g.cond
        # threshold
        c = g.cond
        thr = None
        lenterm = None
        neg_ = False
        if isinstance(c, CondV) and c.kind == "not" and len(c.args) == 1 and isinstance(c.args[0], CondV):
            c, neg_ = c.args[0], True
        if isinstance(c, CondV) and c.kind == "opaque" and len(c.args) == 3:
            op_, a_, b_ = c.args
            if neg_:
                op_ = {"<": ">=", "<=": ">", ">": "<=", ">=": "<", "==": "!=", "!=": "=="}.get(op_, op_)
            if isinstance(a_, Term) and a_.op == "len" and isinstance(b_, Num) and op_ in (">=", ">"):
                lenterm, thr = a_, (b_.p if op_ == ">=" else b_.p + 1)
            elif isinstance(b_, Term) and b_.op == "len" and isinstance(a_, Num) and op_ in ("<=", "<"):
                lenterm, thr = b_, (a_.p if op_ == "<=" else a_.p + 1)
        inter_ok = False
        if lenterm is not None:
            t = lenterm.args[0]
            inter_ok = isinstance(t, Term) and t.op in ("m.intersection", "set_intersection", "bitand") and \
                "comb_lo" in vstr(t) and "comb_hi" in vstr(t)
        ctx.instance("LIN")
        if thr is None or not inter_ok:
            ctx.inconclusive("LIN", f"{tag}.threshold", "adjacency criterion has a form the rule does not read (expected a comparison of "
                             "len(<vertex set of i> intersected with <vertex set of j>) with a number)", where, witness=vstr(c)[:300])
        elif thr == Poly.const(dim - 1):
            ctx.ok("LIN", f"{tag}.threshold", f"cells are adjacent iff they share at least dim-1 = {dim - 1} reduced vertices", where,
                   derived=vstr(c)[:200])
        else:
            ctx.violate("LIN", f"{tag}.threshold", f"adjacency criterion is not `|shared reduced vertices| >= dim - 1` (= {dim - 1})", where,
                        "if len(set_1.intersection(set_2)) >= self.get_dim() - 1", witness=f"effective threshold {thr.pretty()}: {vstr(c)[:300]}")
    if len(guards) == 3:
        keys = {vkey(v) for v in guards.values()}
        ctx.instance("MIRROR")
        ctx.check(len(keys) == 1, "MIRROR", f"{pid}.pair{dim}d.one_pattern", "the adjacency criterion does not depend on the selected "
                  "property: adjacency, borders and distances share one sparsity pattern and entry order", where, witness="guards differ between properties")


def pair_functions(ctx, repo, pid, dim):
    """centre distance / border of a pair in RotobjVoronoi for the given dimension"""
    ci = repo.cls(VO, "RotobjVoronoi")
    hooks = VoroHooks()
    hooks.opaque_pair_functions = False
    for name in ("_calculate_center_distances", "_calculate_borders"):
        fi = ci.find_method(name)
        if fi is None:
            raise AnalysisError(f"anchor vanished: RotobjVoronoi.{name}")
        ctx.analysed(fi)
        interp = Interp(repo, hooks)
        o = ObjV(cls=ci)
        o.attrs["centers"] = T.mat(interp, "C", N, Poly.const(dim))
        i = interp.fresh_idx("g")
        o.attrs["reduced_regions"] = ListV([Loop(i, N, [Elem(Term("region", [Num(Poly.atom(i))]))])])
        o.attrs["reduced_vertices"] = Term("reduced_vertices")
        a, b = Poly.sym("i"), Poly.sym("j")
        res = interp.call_function(fi, [Num(a), Num(b)], {}, self_obj=o)
        tag = f"{pid}.{name.strip('_')}.{dim}d"
        ctx.instance("KERNEL")
        if name == "_calculate_center_distances":
            exp_fn = "dist_on_sphere" if dim == 3 else "distance_between_quaternions"
            ok = isinstance(res, Term) and res.op == exp_fn and len(res.args) == 2
            if ok:
                rows = []
                for x in res.args:
                    ok = ok and isinstance(x, Grid) and isinstance(x.elem, Num)
                    if ok:
                        at = [q for q in x.elem.p.atoms() if q[0] == "app" and q[1] == "at2" and q[2] == "C"]
                        ok = len(at) == 1
                        rows.append(at[0][3] if at else None)
                ok = ok and set(map(lambda q: q.pretty(), rows)) == {"i", "j"}
            ctx.check(ok, "KERNEL", tag, f"centre distance of the pair (i,j) in {dim}D is {exp_fn}(centre_i, centre_j)" +
                      (" (great-circle angle)" if dim == 3 else " (angle minimised over the sign of the quaternion)"), fi.where,
                      witness=vstr(res)[:300])
        else:
            if dim == 3:
                ok = isinstance(res, Term) and res.op == "dist_on_sphere" and len(res.args) == 2
                if ok:
                    k0, k1 = vstr(res.args[0]), vstr(res.args[1])
                    ok = "svd" in k0 and "svd" in k1 and k0 != k1 and "reduced_vertices" in k0
                ctx.check(ok, "KERNEL", tag, "border of an adjacent pair in 3D is the arc between the two shared (reduced) vertices after the "
                          "rank-reducing rotation", fi.where, witness=vstr(res)[:300])
            else:
                ok = isinstance(res, Term) and res.op == "exact_area_of_spherical_polygon" and len(res.args) >= 1 and \
                    isinstance(res.args[0], Term) and res.args[0].op == "sort_points_on_sphere_ccw"
                ctx.check(ok, "KERNEL", tag, "border of an adjacent pair in 4D is the exact spherical area of the ccw-sorted shared "
                          "vertices (projected to a 2-sphere)", fi.where, witness=vstr(res)[:300])
        # the shared vertex set is the intersection of the two cells' reduced regions
        if name == "_calculate_borders":
            inter = find_terms(res, lambda t: t.op in ("m.intersection", "set_intersection"))
            regs = set()
            for t in inter:
                for r_ in find_terms(t, lambda q: q.op == "region"):
                    if r_.args and isinstance(r_.args[0], Num):
                        regs.add(r_.args[0].p.pretty())
            ctx.check(bool(inter) and regs == {"i", "j"}, "FLOW", tag + ".shared", "the border is computed from the vertices shared by "
                      "exactly the two cells i and j (intersection of their reduced regions)", fi.where, "set_1.intersection(set_2)",
                      witness=f"intersections found: {len(inter)}, regions involved: {sorted(regs)}")


def dispatch_model(ctx, repo, pid):
    """gen_grid: exact model for dims=3 & N>=4, half-sphere model for dims=4 & N>=4, estimated model otherwise"""
    ci = repo.cls(RO, "SphereGridNDim")
    gg = ci.find_method("gen_grid")
    if gg is None:
        raise AnalysisError("anchor vanished: SphereGridNDim.gen_grid")
    ctx.analysed(gg)
    chosen = {}
    gen_args = {}
    mikro_bad = {}
    mikro_seen = 0
    for dims in (3, 4):
        for n in (1, 2, 3, 4, 5, 40):
            interp = Interp(repo, Hooks())

            class H(Hooks):
                def call(self, interp, fv, args, kwargs, node):
                    if isinstance(fv, ClassV) and fv.ci.module.name == VO:
                        return ObjV(cls=fv.ci, origin=Term("ctor", args, kwargs))
                    if isinstance(fv, FuncV) and fv.fi.name == "get_N":
                        return fv.self_obj.attrs.get("N")
                    return None
            interp.hooks = H()
            o = ObjV(cls=ci)
            o.attrs.update({"dimensions": Num(dims), "N": Num(n), "grid": T.mat(interp, "G", Poly.const(n if dims == 3 else 2 * n), Poly.const(dims)),
                            "time_generation": Const(False), "spherical_voronoi": Const(None)})
            interp.call_function(gg, [], {}, self_obj=o)
            sv = o.attrs.get("spherical_voronoi")
            chosen[(dims, n)] = sv.cls.name if isinstance(sv, ObjV) and sv.cls is not None else vstr(sv)[:40]
            ctx.instance("DISPATCH")
            # the generators handed to the cell model are the grid rows themselves, in grid order (cell k <-> grid row k)
            if isinstance(sv, ObjV) and sv.cls is not None and sv.cls.name in ("RotobjVoronoi", "HalfRotobjVoronoi") and \
                    isinstance(sv.origin, Term) and sv.origin.op == "ctor":
                a0 = sv.origin.args[0] if sv.origin.args else sv.origin.kw.get("my_array")
                if a0 is not None and vkey(a0) != vkey(o.attrs["grid"]):
                    gen_args.setdefault(vstr(a0)[:160], []).append((dims, n))
            # the tiny-grid estimate is sized by the declared N (the 4D grid array holds the 2N rows of the double cover)
            if isinstance(sv, ObjV) and sv.cls is not None and sv.cls.name == "MikroVoronoi" and isinstance(sv.origin, Term) and \
                    sv.origin.op == "ctor":
                ctor = sv.cls.find_method("__init__")
                names = [a.arg for a in ctor.node.args.args[1:]] if ctor is not None else []
                got = {}
                for nm_, v_ in list(zip(names, sv.origin.args)) + list((sv.origin.kw or {}).items()):
                    got[nm_] = v_
                for nm_, want in (("N_points", n), ("dimensions", dims)):
                    v_ = got.get(nm_)
                    if isinstance(v_, Num) and v_.p.is_const():
                        if v_.p != Poly.const(want):
                            mikro_bad.setdefault((nm_, "wrong"), []).append(f"dims={dims}, N={n}: {nm_}={vstr(v_)}")
                    else:
                        mikro_bad.setdefault((nm_, "unknown"), []).append(f"dims={dims}, N={n}: {nm_}={vstr(v_)[:60]}")
                mikro_seen += 1
    exp = {}
    for dims in (3, 4):
        for n in (1, 2, 3, 4, 5, 40):
            exp[(dims, n)] = ("RotobjVoronoi" if dims == 3 else "HalfRotobjVoronoi") if n >= 4 else "MikroVoronoi"
    bad = {k: (chosen[k], exp[k]) for k in exp if chosen[k] != exp[k]}
    ctx.check(not bad, "DISPATCH", f"{pid}.dispatch", "cell model per grid: exact (3D) / antipode-folded (4D) Voronoi model for N>=4, "
              "equal-share estimate for N<4", gg.where, "if self.dimensions == 3 and self.N >= 4: ...",
              witness="; ".join(f"dims={k[0]}, N={k[1]}: {v[0]} (expected {v[1]})" for k, v in bad.items()))
    if mikro_seen:
        ctx.instance("DISPATCH")
        wrong = [w_ for (nm_, k_), ws in mikro_bad.items() if k_ == "wrong" for w_ in ws]
        unk = [w_ for (nm_, k_), ws in mikro_bad.items() if k_ == "unknown" for w_ in ws]
        if wrong:
            ctx.violate("DISPATCH", f"{pid}.dispatch.tiny_size", "the equal-share estimate of a tiny grid is not sized by the declared number of "
                        "points N and the grid dimension (a 4D grid array holds the 2N rows of the double cover: sizing by its length "
                        "returns 2N shares of pi^2/(2N))", gg.where, "MikroVoronoi(dimensions=self.dimensions, N_points=self.get_N())",
                        witness="; ".join(wrong[:4]))
        elif unk:
            ctx.inconclusive("DISPATCH", f"{pid}.dispatch.tiny_size", "size handed to the tiny-grid estimate not derived", gg.where,
                             witness="; ".join(unk[:4]))
        else:
            ctx.ok("DISPATCH", f"{pid}.dispatch.tiny_size", "the tiny-grid estimate is built for the declared N and the grid dimension", gg.where)
    ctx.instance("ORD")
    if not gen_args:
        ctx.ok("ORD", f"{pid}.dispatch.generators", "the cell model is built on the grid array itself: cell k belongs to grid row k", gg.where)
    else:
        for txt, where_ in gen_args.items():
            if any(w_ in txt for w_ in ("unique(", "sort(", "sorted(", "flip", "shuffle", "permutation")):
                ctx.violate("ORD", f"{pid}.dispatch.generators", "the cell model is built on a RE-ORDERED copy of the grid (np.unique / sort return "
                            "rows in lexicographic order): volumes, borders and neighbours come back in that order and no longer belong to "
                            "the rows of get_grid_as_array()", gg.where, txt, witness=f"contexts (dims, N): {where_[:4]}")
            else:
                ctx.inconclusive("ORD", f"{pid}.dispatch.generators", "the array handed to the cell model is not the grid array", gg.where, witness=txt)
    return chosen


def volumes_exact_3d(ctx, repo, pid):
    """RotobjVoronoi.get_voronoi_volumes(): dims=3 default -> SphericalVoronoi.calculate_areas ; dims=4 -> hull estimate"""
    ci = repo.cls(VO, "RotobjVoronoi")
    fi = ci.methods.get("get_voronoi_volumes")
    if fi is None:
        raise AnalysisError("anchor vanished: RotobjVoronoi.get_voronoi_volumes")
    ctx.analysed(fi)
    d = fi.defaults().get("approx")
    ctx.instance("DISPATCH", 2)
    ctx.check(isinstance(d, ast.Constant) and d.value is False, "DISPATCH", f"{pid}.areas.default", "the exact method is the default "
              "(approx=False)", fi.where, "def get_voronoi_volumes(self, approx=False)", witness=src(d) if d is not None else "no default")
    out = {}
    for dim in (3, 4):
        interp = Interp(repo, VoroHooks())

        class H(VoroHooks):
            def call(self, interp, fv, args, kwargs, node):
                if isinstance(fv, FuncV) and fv.fi.name == "get_voronoi_volumes" and fv.fi.cls is not None and fv.fi.cls.name == "AbstractVoronoi":
                    return Term("hull_estimate")
                return VoroHooks.call(self, interp, fv, args, kwargs, node)
        interp.hooks = H()
        o = ObjV(cls=ci)
        o.attrs["centers"] = T.mat(interp, "C", N, Poly.const(dim))
        o.attrs["spherical_voronoi"] = ObjV(ext="scipy.spatial.SphericalVoronoi", origin=Term("SphericalVoronoi"))
        # attributes the constructor initialises with an empty container / None (memo slots) start out like that
        ctor_ = ci.find_method("__init__")
        for n_ in (ast.walk(ctor_.node) if ctor_ is not None else []):
            if isinstance(n_, ast.Assign) and len(n_.targets) == 1 and isinstance(n_.targets[0], ast.Attribute) and \
                    isinstance(n_.targets[0].value, ast.Name) and n_.targets[0].value.id == "self" and n_.targets[0].attr not in o.attrs:
                v_ = n_.value
                if isinstance(v_, ast.Dict) and not v_.keys or (isinstance(v_, ast.Call) and isinstance(v_.func, ast.Name) and v_.func.id == "dict"
                                                                 and not v_.args and not v_.keywords):
                    o.attrs[n_.targets[0].attr] = DictV({})
                elif isinstance(v_, ast.Constant) and v_.value is None:
                    o.attrs[n_.targets[0].attr] = Const(None)
        res = interp.call_function(fi, [], {}, self_obj=o)
        out[dim] = res
    r3 = out[3]
    r3o = r3.origin if isinstance(r3, ObjV) and isinstance(r3.origin, Term) else r3
    ok3 = isinstance(r3o, Term) and "calculate_areas" in vstr(r3o) and "hull_estimate" not in vstr(r3o)
    if ok3:
        ctx.ok("DISPATCH", f"{pid}.areas.exact", "for direction grids (3D) the default cell areas come from "
               "SphericalVoronoi.calculate_areas (exact areas of the spherical polygons)", fi.where)
    elif contains_top(r3) or contains_top(r3o):
        ctx.inconclusive("DISPATCH", f"{pid}.areas.exact", "value returned for direction grids (3D) by default not derived", fi.where,
                         witness=contains_top(r3) or contains_top(r3o))
    else:
        ctx.violate("DISPATCH", f"{pid}.areas.exact", "for direction grids (3D) the default cell areas do not come from "
                    "SphericalVoronoi.calculate_areas (exact areas of the spherical polygons)", fi.where, witness=vstr(r3o)[:200])
    r4 = out[4]
    if isinstance(r4, Term) and r4.op == "hull_estimate":
        ctx.ok("DISPATCH", f"{pid}.areas.4d", "for rotation grids (4D) the convex-hull estimate is used, unmodified", fi.where)
    else:
        txt4 = vstr(r4)
        rev = "slice(None, None, -1)" in txt4 or "flip" in txt4 or "::-1" in txt4
        if "hull_estimate" in txt4 and rev:
            ctx.violate("DISPATCH", f"{pid}.areas.4d", "the 4D volume estimates are combined with their REVERSED sequence: in the double cover "
                        "(q_0..q_{N-1}, -q_0..-q_{N-1}) the antipode of row i is row i+N, not row 2N-1-i, so every cell is mixed with the "
                        "estimate of an unrelated cell", fi.where, "volumes[::-1]", witness=txt4[:200])
        elif "hull_estimate" not in txt4 and not contains_top(r4):
            ctx.violate("DISPATCH", f"{pid}.areas.4d", "for rotation grids (4D) the convex-hull estimate is not what is returned", fi.where,
                        witness=txt4[:200])
        else:
            ctx.inconclusive("DISPATCH", f"{pid}.areas.4d", "the 4D volume estimate is post-processed in a way that is not recognised", fi.where,
                             witness=contains_top(r4) or txt4[:200])


def quaternion_distance_range(ctx, repo, pid):
    fi = repo.func(UT, "distance_between_quaternions")
    ctx.analysed(fi)

    class H(Hooks):
        def call(self, interp, fv, args, kwargs, node):
            if isinstance(fv, FuncV) and fv.fi.name == "angle_between_vectors":
                return Num(Poly.sym("theta"))
            return None
    ok_all = True
    # the minimisation over the sign of q must happen on the ANGLE (theta vs pi - theta, or |dot|): choosing one representative per
    # quaternion first does not minimise it (two upper-hemisphere representatives can still be more than pi/2 apart)
    FOLD_OPS = ("where", "minimum", "fmin", "abs", "absolute", "fabs", "min", "clip")
    has_fold = any(isinstance(n, ast.Call) and src(n.func).split(".")[-1] in FOLD_OPS for n in ast.walk(fi.node)) or \
        any(isinstance(n, ast.IfExp) for n in ast.walk(fi.node))
    ctx.instance("RANGE")
    if not has_fold:
        ctx.violate("RANGE", f"{pid}.qdist.fold", "the quaternion distance is returned without the fold over the sign of q (theta -> pi - theta "
                    "above pi/2): distances up to pi are possible, rotations that are close appear far apart", fi.where,
                    "return np.where(theta > pi / 2, pi-theta, theta)", witness="no where / minimum / abs on the angle in distance_between_quaternions")
        return False
    for shape in ("single", "rows"):
        interp = Interp(repo, H())
        if shape == "single":
            a, b = T.vec(interp, "q1", Poly.const(4)), T.vec(interp, "q2", Poly.const(4))
        else:
            a, b = T.mat(interp, "Q1", N, Poly.const(4)), T.mat(interp, "Q2", N, Poly.const(4))
            interp.hooks = type("H3", (H,), {"call": lambda self, interp, fv, args, kwargs, node:
                                            (T.mat(interp, "TH", N, N) if isinstance(fv, FuncV) and fv.fi.name == "angle_between_vectors" else None)})()
        res = interp.call_function(fi, [a, b], {})
        ctx.instance("RANGE")
        th = Poly.sym("theta")
        pi = Poly.sym("pi")
        el = res
        if shape == "rows":
            # diagonal of the angle matrix then the same fold; accept any value whose fold structure is right
            if isinstance(res, Term) and res.op == "where":
                ctx.ok("RANGE", f"{pid}.qdist.{shape}", "row-wise form applies the same sign fold to the diagonal of the angle matrix", fi.where,
                       derived=vstr(res)[:200])
                c, av, bv = res.args
                # structure check of the fold on the opaque diagonal
                if not (isinstance(c, CondV) and c.kind == "opaque" and c.args[0] in (">", ">=", "<", "<=") and isinstance(c.args[2], Num)):
                    ctx.inconclusive("RANGE", f"{pid}.qdist.{shape}.switch", "condition of the row-wise sign fold has an unrecognised form", fi.where,
                                     witness=vstr(c)[:200])
                    continue
                hi_v, lo_v = (av, bv) if c.args[0] in (">", ">=") else (bv, av)
                diag = c.args[1]
                okr = c.args[2].p == pi / 2 and vstr(lo_v) == vstr(diag) and isinstance(hi_v, Term) and hi_v.op == "sub" and \
                    isinstance(hi_v.args[0], Num) and hi_v.args[0].p == pi and vstr(hi_v.args[1]) == vstr(diag)
                ctx.check(okr, "RANGE", f"{pid}.qdist.{shape}.switch", "row-wise fold: theta up to pi/2, pi - theta above (switch exactly at pi/2)",
                          fi.where, witness=f"switch at {vstr(c.args[2])}; above: {vstr(hi_v)[:80]}; below: {vstr(lo_v)[:80]}")
            elif contains_top(res):
                ctx.inconclusive("RANGE", f"{pid}.qdist.{shape}", "row-wise quaternion distance not derived", fi.where, witness=contains_top(res))
            else:
                ctx.inconclusive("RANGE", f"{pid}.qdist.{shape}", "row-wise quaternion distance has an unrecognised form", fi.where, witness=vstr(res)[:200])
            continue
        if not isinstance(el, Num):
            ctx.inconclusive("RANGE", f"{pid}.qdist.{shape}", "quaternion distance not derived", fi.where, witness=contains_top(res) or vstr(res)[:200])
            continue
        ats = [x for x in el.p.atoms() if x[0] == "app" and x[1] == "where"]
        good = len(ats) == 1 and el.p == Poly.atom(ats[0])
        if good:
            _, _, cmp_, av, bv = ats[0]
            catoms = [x for x in cmp_.atoms()]
            good = len(catoms) == 1 and catoms[0][1] == "cmp"
            if good:
                op, l, r = catoms[0][2], catoms[0][3], catoms[0][4]
                # theta in [0, pi]; result in [0, pi/2] iff switch at pi/2 with alternative pi - theta
                if op in (">", ">=") and l == th:
                    sw, hi_v, lo_v = r, av, bv
                elif op in ("<", "<=") and l == th:
                    sw, hi_v, lo_v = r, bv, av
                else:
                    sw = hi_v = lo_v = None
                good = sw is not None and sw == pi / 2 and hi_v == pi - th and lo_v == th
                if not good and sw is not None:
                    ok_all = False
                    ctx.violate("RANGE", f"{pid}.qdist.{shape}", "quaternion distance does not stay in [0, pi/2]: with theta in [0, pi] the "
                                "fold must switch exactly at pi/2 to pi - theta (distance minimised over the sign of q)", fi.where,
                                "np.where(theta > pi / 2, pi-theta, theta)",
                                witness=f"switch at {sw.pretty()}, above: {hi_v.pretty()}, below: {lo_v.pretty()}")
                    continue
        if good:
            ctx.ok("RANGE", f"{pid}.qdist.{shape}", "quaternion distance = theta for theta <= pi/2, pi - theta above: values in [0, pi/2], "
                   "the geodesic angle minimised over the sign", fi.where, derived=el.p.pretty())
        else:
            ok_all = False
            ctx.violate("RANGE", f"{pid}.qdist.{shape}", "quaternion distance is not the sign-folded angle", fi.where,
                        "np.where(theta > pi / 2, pi-theta, theta)", witness=el.p.pretty()[:200])
    return ok_all


def double_cover_layout(ctx, repo, pid):
    """SphereGrid4Dim._gen_grid: rows [0,N) = half grid, row N+i = -half[i]"""
    ci = repo.cls(RO, "SphereGrid4Dim")
    fi = ci.methods.get("_gen_grid")
    if fi is None:
        raise AnalysisError("anchor vanished: SphereGrid4Dim._gen_grid")
    ctx.analysed(fi)
    interp = Interp(repo, Hooks())
    o = ObjV(cls=ci)
    half = T.mat(interp, "H", N, Poly.const(4))
    o.attrs.update({"grid": half, "N": Num(N), "dimensions": Num(4)})
    res = interp.call_function(fi, [], {}, self_obj=o)
    ctx.instance("LAYOUT", 3)
    if not (isinstance(res, ObjV) and res.ext == "ndarray"):
        ctx.inconclusive("LAYOUT", f"{pid}.doublecover", "double-cover array not derived", fi.where, witness=contains_top(res) or vstr(res)[:200])
        return
    dims = res.attrs["dims"].items_p
    ctx.check(dims == [2 * N, Poly.const(4)], "LAYOUT", f"{pid}.doublecover.shape", "double cover has 2N rows of 4 numbers", fi.where,
              witness=str([d.pretty() for d in dims]))
    first = neg = None
    for frames, idx, val, aug, st in res.stores:
        if isinstance(idx, Term) and idx.op == "slice":
            first = (idx, val)
        elif isinstance(idx, Num):
            neg = (frames, idx, val)
    okf = first is not None and isinstance(first[0].args[0], Const) and isinstance(first[0].args[1], Num) and first[0].args[1].p == N and \
        vkey(first[1]) == vkey(half)
    ctx.check(okf, "LAYOUT", f"{pid}.doublecover.first", "rows [0, N) of the double cover are the N grid rows in their order (upper "
              "indices = first N)", fi.where, "full_hypersphere_grid[:N] = half_grid", witness=vstr(first[0]) if first else "no slice store")
    okn = False
    if neg is not None:
        frames, idx, val = neg
        loops = [f for f in frames if f.kind == "loop"]
        if len(loops) == 1 and loops[0].extent == N:
            i = Poly.atom(loops[0].idx)
            okn = idx.p == N + i and isinstance(val, Grid) and isinstance(val.elem, Num) and \
                val.elem.p == -Poly.app("at2", "H", i, Poly.atom(val.dims[0][0][0]))
    ctx.check(okn, "LAYOUT", f"{pid}.doublecover.neg", "row N+i of the double cover is the exact negative of row i", fi.where,
              "full_hypersphere_grid[N + i] = inverse_q", witness=vstr(neg[1]) + " <- " + vstr(neg[2])[:120] if neg else "no store")


def vertex_reindexing(ctx, repo, pid):
    """REINDEX: get_reduced_vertices_regions removes EXACT duplicate vertices (np.unique) and maps every old vertex to its
    representative by a coordinate lookup; that lookup inverts an exact de-duplication, so an explicit tolerance coarser than
    numpy's default (1e-8) can map a vertex to a DIFFERENT nearby representative: two cells then seem to share one vertex less or
    more, and a true neighbour pair is dropped / a false one added."""
    from .polyrules import _tol_value
    ci = repo.cls(VO, "AbstractVoronoi")
    fi = ci.find_method("get_reduced_vertices_regions")
    if fi is None:
        raise AnalysisError("anchor vanished: AbstractVoronoi.get_reduced_vertices_regions")
    ctx.analysed(fi)
    calls = [n for n in ast.walk(fi.node) if isinstance(n, ast.Call) and isinstance(n.func, ast.Name) and
             any(k in n.func.id for k in ("which_row", "row_is", "isclose", "allclose"))]
    calls += [n for n in ast.walk(fi.node) if isinstance(n, ast.Call) and isinstance(n.func, ast.Attribute) and n.func.attr in ("isclose", "allclose")]
    ctx.instance("FLOATTOL", max(1, len(calls)))
    bad = []
    unknown = []
    for c in calls:
        named = [(k.arg, k.value) for k in c.keywords]
        # positional tolerance arguments of repository helpers (the call normal form makes leading keywords positional)
        if isinstance(c.func, ast.Name):
            r_ = repo.resolve_name(fi.module, c.func.id)
            if r_ and r_[0] == "func":
                ps = r_[1].params()
                named += [(ps[i], a) for i, a in enumerate(c.args) if i < len(ps)]
        for nm, val in named:
            if nm in ("atol", "rtol", "tol", "abs_tol", "rel_tol"):
                v = _tol_value(repo, fi.module, val)
                k = ast.keyword(arg=nm, value=val)
                if v is None:
                    unknown.append((c, k))
                elif v > 1e-7:
                    bad.append((c, k, v))
    if bad:
        c, k, v = bad[0]
        ctx.violate("FLOATTOL", f"{pid}.reindex.tolerance", "the lookup that maps every Voronoi vertex to its de-duplicated representative uses a "
                    "tolerance far above rounding noise although the de-duplication is exact: distinct vertices closer than the tolerance "
                    "are merged, and cells that share a very short edge lose (or gain) a common vertex — the adjacency criterion is applied "
                    "to wrong vertex sets", fi.where, src(c)[:140], witness=f"{k.arg} = {v:g} (numpy default 1e-8)")
    elif unknown:
        ctx.inconclusive("FLOATTOL", f"{pid}.reindex.tolerance", "tolerance of the vertex lookup is not a compile-time constant", fi.where,
                         witness=src(unknown[0][0])[:120])
    else:
        ctx.ok("FLOATTOL", f"{pid}.reindex.tolerance", "vertex representatives are looked up with the default (rounding-noise) tolerance", fi.where)


# ---------------------------------------------------------------------------------------------------------------------------
# FORWARD: the grid objects expose the quantities of their Voronoi model by attribute forwarding (__getattr__)

def getter_forwarding(ctx, repo, pid):
    """SphereGridNDim.__getattr__ forwards every name it does not define to self.spherical_voronoi, which is how
    grid.get_voronoi_adjacency() / get_cell_borders() / get_center_distances() / get_voronoi_volumes() reach the Voronoi classes
    analysed by the other rules.  A method of the same name defined anywhere in the grid-class hierarchy SHADOWS the forwarding:
    it must itself be a plain delegation, otherwise the reported quantity no longer comes from the analysed cell model."""
    ci = repo.cls(RO, "SphereGridNDim")
    ga = ci.methods.get("__getattr__")
    ctx.instance("OWN")
    fwd_ok = False
    if ga is not None:
        rets = [n for n in ast.walk(ga.node) if isinstance(n, ast.Return) and n.value is not None]
        fwd_ok = len(rets) == 1 and src(rets[0].value).replace(" ", "") in ("getattr(self.spherical_voronoi,name)", "self.spherical_voronoi.__getattribute__(name)")
    if not fwd_ok:
        # forwarding replaced by explicit methods: every public Voronoi getter must then be delegated explicitly - not recognised here
        ctx.inconclusive("OWN", f"{pid}.forward", "attribute forwarding of the grid classes to their Voronoi model not recognised",
                         ga.where if ga is not None else ci.where if hasattr(ci, "where") else RO)
        return
    ctx.analysed(ga)
    vmod = repo.module(VO)
    vnames = set()
    for c in vmod.classes.values():
        vnames |= {m for m in c.methods if not m.startswith("__")}
    rmod = repo.module(RO)
    # grid classes = SphereGridNDim and its (transitive) subclasses in the module
    grid_classes = [c for c in rmod.classes.values() if any(b.name == "SphereGridNDim" for b in c.mro())]
    shadows = [(c, m, fi) for c in grid_classes for m, fi in c.methods.items() if m in vnames]
    ctx.instance("OWN", len(vnames))
    bad = False
    for c, m, fi in sorted(shadows, key=lambda x: (x[0].name, x[1])):
        ctx.analysed(fi)
        rets = [n for n in ast.walk(fi.node) if isinstance(n, ast.Return) and n.value is not None]
        deleg = lambda e: isinstance(e, ast.Call) and isinstance(e.func, ast.Attribute) and e.func.attr == m and \
            src(e.func.value) in ("self.spherical_voronoi", "self.get_spherical_voronoi()")
        if rets and all(deleg(r.value) for r in rets):
            continue
        bad = True
        foreign = [r for r in rets if not deleg(r.value)]
        txt = " ".join(src(r.value) for r in foreign)
        if m == "get_voronoi_adjacency" and ("polytope" in txt or "adjacency_matrix" in txt or ".G" in txt):
            ctx.violate("OWN", f"{pid}.forward.{m}", f"{c.name}.{m} shadows the forwarding to the Voronoi model and answers from the POLYTOPE graph: "
                        "polytope edges are not Voronoi neighbourhoods (the cube graph carries face diagonals, a subdivided icosahedron graph "
                        "lacks the inner triangle edges), so adjacency differs from the pattern of borders and distances", fi.where,
                        src(foreign[0].value)[:160], witness=f"return path not through self.spherical_voronoi.{m}")
        else:
            ctx.inconclusive("OWN", f"{pid}.forward.{m}", f"{c.name}.{m} shadows the forwarding to the Voronoi model with an implementation of "
                             "its own: the quantity no longer (only) comes from the analysed cell model", fi.where,
                             src(foreign[0].value)[:160] if foreign else "")
    if not bad:
        ctx.ok("OWN", f"{pid}.forward", f"no grid class shadows one of the {len(vnames)} forwarded Voronoi methods with an implementation of its own "
               f"({len(shadows)} plain delegations)", ga.where)


# ---------------------------------------------------------------------------------------------------------------------------
# SNAP: the measure functions behind the border / distance / area entries must not snap small values to a constant

MEASURE_FUNCTIONS = ("exact_area_of_spherical_polygon", "dist_on_sphere", "angle_between_vectors", "distance_between_quaternions",
                     "_get_alpha_with_spherical_cosine_law")


def value_snapping(ctx, repo, pid):
    """a border entry that is exactly 0 is not stored in the sparse matrix, an adjacency entry of the same pair is: a measure function
    that returns a constant when its result is 'close to' something makes the three matrices disagree for small faces / near pairs"""
    m = repo.module("molgri.space.utils")
    n_f = 0
    bad = []
    for name in MEASURE_FUNCTIONS:
        fi = m.functions.get(name)
        if fi is None:
            continue
        n_f += 1
        ctx.analysed(fi)
        for n in ast.walk(fi.node):
            if not isinstance(n, ast.If):
                continue
            tol = [c for c in ast.walk(n.test) if (isinstance(c, ast.Call) and src(c.func).split(".")[-1] in ("isclose", "allclose")) or
                   (isinstance(c, ast.Compare) and len(c.ops) == 1 and isinstance(c.ops[0], (ast.Lt, ast.LtE)) and
                    any(isinstance(x, ast.Call) and src(x.func).split(".")[-1] in ("abs", "fabs", "absolute") for x in [c.left]))]
            if not tol:
                continue
            consts = [r for b in n.body for r in ast.walk(b) if isinstance(r, ast.Return) and isinstance(r.value, ast.Constant) and
                      isinstance(r.value.value, (int, float)) and not isinstance(r.value.value, bool)]
            if consts:
                bad.append((fi, n, consts[0]))
    ctx.instance("FLOATTOL", n_f + 1)
    if n_f == 0:
        ctx.inconclusive("FLOATTOL", f"{pid}.measure.snap", "none of the measure functions found in molgri/space/utils.py", m.relpath)
        return
    for fi, n, r in bad:
        ctx.violate("FLOATTOL", f"{pid}.measure.snap", f"`{fi.name}` returns the constant {r.value.value!r} whenever its result is within a tolerance: "
                    "a small but positive face / angle is reported as exactly that constant; a border of 0 is not stored in the sparse matrix "
                    "while the pair stays adjacent, so adjacency, borders and distances no longer share one pattern and the entry is not "
                    "the face measure", fi.where, "if " + src(n.test)[:120], witness=f"return {r.value.value!r} under `{src(n.test)[:80]}`")
    if not bad:
        ctx.ok("FLOATTOL", f"{pid}.measure.snap", f"none of the {n_f} measure functions replaces a small result by a constant under a tolerance test",
               m.relpath)


# ---------------------------------------------------------------------------------------------------------------------------
# ONEPATTERN: one construction for the three pairwise matrices

def one_construction(ctx, repo, pid):
    """adjacency, borders and centre distances of a cell model share one sparsity pattern because ONE pair loop with ONE neighbour
    criterion emits all three; the selected property only chooses the VALUE that is emitted.  A `_calculate_N_N_array` implementation
    in which `sel_property` selects a different construction path (a branch at the top level of the routine that returns or builds
    the matrix by another criterion) lets the patterns drift apart."""
    m = repo.module(VO)
    n_impl = 0
    bad = []
    for ci in m.classes.values():
        fi = ci.methods.get("_calculate_N_N_array")
        if fi is None or ci.name == "MikroVoronoi":
            continue
        n_impl += 1
        ctx.analysed(fi)
        for st in fi.node.body:
            if not isinstance(st, ast.If):
                continue
            names = {n.id for n in ast.walk(st.test) if isinstance(n, ast.Name)}
            if "sel_property" not in names:
                continue
            # both branches must end in the same construction: flag when one branch delegates / returns and the other builds its own triplets
            def kind(block):
                txt = " ".join(src(b) for b in block)
                # an early `return other_construction(...)` under a test of the property: the other properties fall through to the pair loop
                deleg = any(isinstance(x, ast.Return) and isinstance(x.value, ast.Call) and isinstance(x.value.func, ast.Attribute) and
                            isinstance(x.value.func.value, (ast.Name, ast.Attribute, ast.Call)) and
                            src(x.value.func).split(".")[0] in ("self", "super()") for b in block for x in ast.walk(b))
                return "delegates" if deleg else ("builds" if ("coo_array" in txt or "rows" in txt) else "other")
            rest = fi.node.body[fi.node.body.index(st) + 1:]
            k_body, k_else = kind(st.body), kind(st.orelse if st.orelse else rest)
            if {k_body, k_else} == {"delegates", "builds"}:
                bad.append((fi, st))
    ctx.instance("MIRROR", max(1, n_impl))
    for fi, st in bad:
        ctx.violate("MIRROR", f"{pid}.one_construction", f"{fi.qualname}: the selected property decides HOW the matrix is built (one property takes a "
                    "construction of its own, the others the shared pair loop): adjacency, borders and distances are no longer produced by one "
                    "neighbour criterion and need not share one sparsity pattern", fi.where, "if " + src(st.test)[:120],
                    witness="a top-level branch on sel_property separates a delegating path from a path that builds its own (rows, columns)")
    if not bad:
        ctx.ok("MIRROR", f"{pid}.one_construction", f"in all {n_impl} cell-model implementations the selected property only chooses the emitted value, "
               "never the construction of the pattern", m.relpath)


def pair_source(ctx, repo, pid):
    """CANDIDATES: the pair loop of the pairwise matrices visits ALL pairs of cells.  Where the pairs come from a method
    (`for pair in self._candidate_pairs()`), every implementation of that method in the cell-model classes is examined: a
    nearest-centres / distance pre-filter is not the Voronoi neighbour criterion (a cell can share a face with a cell that is not
    among its k closest centres on an irregular grid), so neighbours are silently lost."""
    m = repo.module(VO)
    base = repo.cls(VO, "AbstractVoronoi")
    fi = base.methods.get("_calculate_N_N_array")
    ctx.instance("CANDIDATES")
    if fi is None:
        ctx.inconclusive("CANDIDATES", f"{pid}.pair_source", "anchor vanished: AbstractVoronoi._calculate_N_N_array", m.relpath)
        return
    loops = [n for n in fi.node.body if isinstance(n, ast.For)]
    if not loops:
        ctx.inconclusive("CANDIDATES", f"{pid}.pair_source", "pair loop not found", fi.where)
        return
    it = loops[0].iter
    if not (isinstance(it, ast.Call) and isinstance(it.func, ast.Attribute) and isinstance(it.func.value, ast.Name) and it.func.value.id == "self"):
        ctx.ok("CANDIDATES", f"{pid}.pair_source", "the pair loop iterates over an expression of the routine itself (judged by the MIRROR rule)", fi.where,
               src(it)[:120])
        return
    mname = it.func.attr
    impls = [(c, c.methods[mname]) for c in m.classes.values() if mname in c.methods]
    FILTERS = ("cdist", "KDTree", "cKDTree", "argsort", "argpartition", "k_argmin", "nsmallest", "query", "nearest")
    bad, unk = [], []
    for c, f in impls:
        ctx.analysed(f)
        txt = src(f.node)
        used = [w for w in FILTERS if w in txt]
        rets = [r for r in ast.walk(f.node) if isinstance(r, ast.Return) and r.value is not None]
        all_pairs = bool(rets) and all(isinstance(r.value, ast.Call) and src(r.value.func).split(".")[-1] == "combinations" for r in rets)
        if used:
            bad.append((c, f, used))
        elif not all_pairs:
            unk.append((c, f))
    for c, f, used in bad:
        ctx.violate("CANDIDATES", f"{pid}.pair_source", f"{c.name}.{mname} restricts the pairs that are tested for a shared border to candidates "
                    f"chosen by centre distance ({', '.join(used)}): a Voronoi neighbour outside the candidate list is dropped from all three "
                    "matrices (and a one-sided candidate list makes the folded matrices asymmetric)", f.where, mname,
                    witness="nearest-centres pre-filter is not the neighbour criterion |shared vertices| >= dim-1 over ALL pairs")
    for c, f in unk:
        ctx.inconclusive("CANDIDATES", f"{pid}.pair_source", f"{c.name}.{mname}: source of the cell pairs not recognised", f.where)
    if not bad and not unk:
        ctx.ok("CANDIDATES", f"{pid}.pair_source", f"every implementation of {mname} ({len(impls)}) returns all combinations of two cells", fi.where)
