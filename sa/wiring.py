"""PAIRIO / FLOW helpers: which getter result is stored in which file by which saver, and which loader reads it back.
Shared by C14 and C20.  Works on molgri/io.py and on the Snakefile rules (sa.snake front end)."""
from __future__ import annotations

import ast
from typing import Dict, Optional, Tuple

from .model import Repo, AnalysisError, src
from .snake import Workflows

SAVE_FAMILY = {"numpy.save": "npy", "scipy.sparse.save_npz": "npz"}
LOAD_FAMILY = {"numpy.load": "npy", "scipy.sparse.load_npz": "npz"}
LABEL_OF_GETTER = {"get_full_grid_as_array": "ARRAY", "get_total_volumes": "VOLUMES", "get_full_borders": "BORDERS",
                   "get_full_distances": "DISTANCES", "get_full_adjacency": "ADJACENCY"}
EXPECTED_FAMILY = {"ARRAY": "npy", "VOLUMES": "npy", "BORDERS": "npz", "DISTANCES": "npz", "ADJACENCY": "npz"}


def dotted_in(imports: Dict[str, str], e) -> Optional[str]:
    parts = []
    while isinstance(e, ast.Attribute):
        parts.append(e.attr)
        e = e.value
    if not isinstance(e, ast.Name):
        return None
    parts.append(e.id)
    parts.reverse()
    head = imports.get(parts[0], parts[0])
    return ".".join([head] + parts[1:])


def imports_of(tree) -> Dict[str, str]:
    out = {}
    for n in ast.walk(tree):
        if isinstance(n, ast.Import):
            for a in n.names:
                out[a.asname or a.name.split(".")[0]] = a.name if a.asname else a.name.split(".")[0]
        elif isinstance(n, ast.ImportFrom) and n.module:
            for a in n.names:
                out[a.asname or a.name] = f"{n.module}.{a.name}"
    return out


VALUE_PRESERVING_FUNCS = {"asarray", "array", "asanyarray", "ascontiguousarray", "coo_array", "csr_array", "csc_array", "coo_matrix",
                          "csr_matrix", "csc_matrix", "copy", "deepcopy"}
VALUE_PRESERVING_METHODS = {"copy", "tocoo", "tocsr", "tocsc", "asformat", "astype"}
VALUE_CHANGING = {"sorted", "reversed", "sort", "flip", "transpose", "abs", "unique", "round", "triu", "tril", "sum", "cumsum", "roll", "shuffle",
                  "permutation", "negative", "sqrt", "log", "exp", "clip", "multiply", "power", "toarray", "todense", "diagonal", "ravel", "flatten"}


def getter_of(e, receiver_names) -> Tuple[Optional[str], Optional[bool], dict]:
    """value expression -> (getter name, direct?, keyword args of the getter call)
    direct is True  when the expression is `<recv>.<getter>(...)` possibly inside value-preserving wrappers (np.asarray, .copy(),
                     .tocsr(), coo_array(..)),
              False when a value-changing operation is applied on the way (sorted, .T, arithmetic, slicing, ...),
              None  when the wrapping is not recognised (undecided)."""
    cur = e
    for _ in range(6):
        if isinstance(cur, ast.Call) and isinstance(cur.func, ast.Attribute) and src(cur.func.value) in receiver_names and \
                cur.func.attr in LABEL_OF_GETTER:
            return cur.func.attr, True, {k.arg: k.value for k in cur.keywords}
        if isinstance(cur, ast.Call) and len(cur.args) >= 1 and src(cur.func).split(".")[-1] in VALUE_PRESERVING_FUNCS and \
                not any(k.arg in ("dtype", "shape") for k in cur.keywords):
            cur = cur.args[0]
            continue
        if isinstance(cur, ast.Call) and isinstance(cur.func, ast.Attribute) and cur.func.attr in VALUE_PRESERVING_METHODS and \
                not (cur.func.attr == "astype"):
            cur = cur.func.value
            continue
        break
    for n in ast.walk(e):
        if isinstance(n, ast.Call) and isinstance(n.func, ast.Attribute) and src(n.func.value) in receiver_names and n.func.attr in LABEL_OF_GETTER:
            kw = {k.arg: k.value for k in n.keywords}
            changing = any((isinstance(m, ast.Call) and src(m.func).split(".")[-1] in VALUE_CHANGING) or
                           (isinstance(m, ast.Attribute) and m.attr == "T") or
                           isinstance(m, (ast.BinOp, ast.UnaryOp, ast.Subscript, ast.ListComp, ast.GeneratorExp))
                           for m in ast.walk(e) if m is not n)
            return n.func.attr, (False if changing else None), kw
    return None, False, {}


LIB_PARAMS = {"numpy.save": ["file", "arr"], "scipy.sparse.save_npz": ["file", "matrix", "compressed"], "numpy.savetxt": ["fname", "X"],
              "numpy.load": ["file"], "scipy.sparse.load_npz": ["file"], "numpy.savez": ["file"]}


def lib_args(dotted, call):
    """arguments of a numpy/scipy saver/loader call in positional order, whether they were passed positionally or by keyword"""
    names = LIB_PARAMS.get(dotted, [])
    out = list(call.args)
    kw = {k.arg: k.value for k in call.keywords}
    for i in range(len(out), len(names)):
        if names[i] in kw:
            out.append(kw[names[i]])
        else:
            break
    return out


def _through_slots(ci, e, depth=0):
    """see through the writer's own fill-once slots:  self._helper()  ->  the expression the helper returns;  self._slot  ->  the one
    non-None expression ever stored in it (anywhere in the class)"""
    import copy as _copy
    if depth > 3:
        return e

    class Tr(ast.NodeTransformer):
        def visit_Call(self, node):
            self.generic_visit(node)
            f_ = node.func
            if isinstance(f_, ast.Attribute) and isinstance(f_.value, ast.Name) and f_.value.id == "self" and not node.args and not node.keywords:
                m = ci.find_method(f_.attr)
                if m is not None:
                    rets = [r.value for r in ast.walk(m.node) if isinstance(r, ast.Return) and r.value is not None]
                    if rets and len({src(r) for r in rets}) == 1:
                        return _through_slots(ci, _copy.deepcopy(rets[0]), depth + 1)
            return node

        def visit_Attribute(self, node):
            self.generic_visit(node)
            if isinstance(node.value, ast.Name) and node.value.id == "self" and isinstance(node.ctx, ast.Load):
                vals = []
                for c in ci.mro():
                    for fm in c.methods.values():
                        for n in ast.walk(fm.node):
                            if isinstance(n, ast.Assign) and len(n.targets) == 1 and isinstance(n.targets[0], ast.Attribute) and \
                                    isinstance(n.targets[0].value, ast.Name) and n.targets[0].value.id == "self" and n.targets[0].attr == node.attr and \
                                    not (isinstance(n.value, ast.Constant) and n.value.value is None):
                                vals.append(n.value)
                if len(vals) == 1 and not (isinstance(vals[0], ast.Call) and isinstance(vals[0].func, ast.Name)):
                    return _through_slots(ci, _copy.deepcopy(vals[0]), depth + 1)
            return node
    return Tr().visit(_copy.deepcopy(e))


def io_writer_table(repo: Repo):
    """GridWriter.save_*  ->  {method: (family, path param ok, getter, direct, node)}"""
    ci = repo.cls("molgri.io", "GridWriter")
    out = {}
    for name, fi in ci.methods.items():
        if not name.startswith("save_"):
            continue
        calls = [n for n in ast.walk(fi.node) if isinstance(n, ast.Call) and (repo.dotted_of(fi.module, n.func) or "") in SAVE_FAMILY]
        rec = {"fi": fi, "calls": calls}
        if len(calls) == 1:
            from .astutil import Canon
            c = calls[0]
            dn = repo.dotted_of(fi.module, c.func)
            rec["family"] = SAVE_FAMILY[dn]
            params = fi.params()[1:]
            la = lib_args(dn, c)
            cn = Canon(Canon.single_defs(fi.node.body, exclude=set(params)))
            rec["path_ok"] = len(la) >= 1 and isinstance(la[0], ast.Name) and la[0].id in params
            val = _through_slots(ci, cn.expand(la[1])) if len(la) > 1 else None
            g, direct, kw = getter_of(val, {"self.fg"}) if val is not None else (None, False, {})
            # a local that holds the value and is modified afterwards (x.data = ..., x[...] = ..., x *= ...) is not the getter result any more
            if g is not None and len(la) > 1 and isinstance(la[1], ast.Name):
                nm = la[1].id
                for n in ast.walk(fi.node):
                    tg = n.targets[0] if isinstance(n, ast.Assign) and len(n.targets) == 1 else (n.target if isinstance(n, ast.AugAssign) else None)
                    if tg is not None and not isinstance(tg, ast.Name):
                        root = tg
                        while isinstance(root, (ast.Attribute, ast.Subscript)):
                            root = root.value
                        if isinstance(root, ast.Name) and root.id == nm:
                            direct = False
                    if isinstance(n, ast.AugAssign) and isinstance(n.target, ast.Name) and n.target.id == nm:
                        direct = False
            rec["getter"], rec["direct"], rec["kwargs"] = g, direct, kw
            rec["call"] = c
        out[name] = rec
    return out


def io_reader_table(repo: Repo):
    ci = repo.cls("molgri.io", "GridReader")
    out = {}
    for name, fi in ci.methods.items():
        if not name.startswith("load_"):
            continue
        rets = [n for n in ast.walk(fi.node) if isinstance(n, ast.Return) and n.value is not None]
        rec = {"fi": fi}
        ret_expr = rets[0].value if len(rets) == 1 else None
        if isinstance(ret_expr, ast.Name):
            # x = <loader call>; ...statements that do not touch x...; return x
            nm_ = ret_expr.id
            defs_ = [n for n in ast.walk(fi.node) if isinstance(n, ast.Assign) and len(n.targets) == 1 and isinstance(n.targets[0], ast.Name) and
                     n.targets[0].id == nm_]
            touched_ = False
            for n in ast.walk(fi.node):
                tg = n.targets[0] if isinstance(n, ast.Assign) and len(n.targets) == 1 else (n.target if isinstance(n, ast.AugAssign) else None)
                if tg is not None and not (isinstance(n, ast.Assign) and n in defs_):
                    root = tg
                    while isinstance(root, (ast.Subscript, ast.Attribute)):
                        root = root.value
                    if isinstance(root, ast.Name) and root.id == nm_:
                        touched_ = True
                if isinstance(n, ast.Call) and isinstance(n.func, ast.Attribute) and isinstance(n.func.value, ast.Name) and n.func.value.id == nm_ and \
                        n.func.attr in ("sort", "resize", "fill", "setflags", "put", "itemset", "partition", "byteswap"):
                    touched_ = True
            if len(defs_) == 1 and isinstance(defs_[0].value, ast.Call) and not touched_:
                ret_expr = defs_[0].value
        if ret_expr is not None and isinstance(ret_expr, ast.Call):
            from .astutil import inline_self_methods
            c = inline_self_methods(ci, ret_expr)        # the loader call may sit in a small shared helper of the class
            if not isinstance(c, ast.Call):
                c = ret_expr
            d = repo.dotted_of(fi.module, c.func) or ""
            rec["family"] = LOAD_FAMILY.get(d)
            rec["dotted"] = d
            params = fi.params()[1:]
            la = lib_args(d, c)
            rec["path_ok"] = len(la) >= 1 and isinstance(la[0], ast.Name) and la[0].id in params
            # options of the loader: content-neutral ones are accepted, a WRITABLE memory map hands the caller the file itself
            extra, unknown = [], []
            for k in c.keywords:
                if k.arg in LIB_PARAMS.get(d, [])[:1]:
                    continue
                v_ = k.value.value if isinstance(k.value, ast.Constant) else "?"
                if k.arg == "mmap_mode":
                    if v_ in ("r+", "w+"):
                        extra.append(f"mmap_mode={v_!r}: the returned array IS the file, an in-place operation of any consumer rewrites what was stored")
                    elif v_ not in (None, "r", "c"):
                        unknown.append(f"mmap_mode={src(k.value)}")
                elif k.arg in ("allow_pickle", "fix_imports", "encoding", "max_header_size"):
                    continue
                else:
                    unknown.append(k.arg)
            rec["extra"] = extra + [src(a) for a in la[1:]]
            rec["unknown"] = unknown
            rec["direct"] = True
            rec["call"] = c
        if len(rets) == 1 and rec.get("family") is None:
            inner = [n for n in ast.walk(rets[0].value) if isinstance(n, ast.Call) and (repo.dotted_of(fi.module, n.func) or "") in LOAD_FAMILY]
            rec["direct"] = False
            rec["wrapped"] = bool(inner) and inner[0] is not rets[0].value
            rec["call"] = rets[0].value
            # x = np.load(path); x[...] = f(x[...]); return x   - the loaded value is rewritten before it is handed out
            if isinstance(rets[0].value, ast.Name):
                nm = rets[0].value.id
                defs = [n for n in ast.walk(fi.node) if isinstance(n, ast.Assign) and len(n.targets) == 1 and isinstance(n.targets[0], ast.Name) and
                        n.targets[0].id == nm]
                loads = [d_ for d_ in defs if isinstance(d_.value, ast.Call) and (repo.dotted_of(fi.module, d_.value.func) or "") in LOAD_FAMILY]
                edits = []
                for n in ast.walk(fi.node):
                    tg = n.targets[0] if isinstance(n, ast.Assign) and len(n.targets) == 1 else (n.target if isinstance(n, ast.AugAssign) else None)
                    if tg is None:
                        continue
                    root = tg
                    while isinstance(root, (ast.Subscript, ast.Attribute)):
                        root = root.value
                    if isinstance(root, ast.Name) and root.id == nm and (tg is not root or isinstance(n, ast.AugAssign)):
                        edits.append(n)
                if len(defs) == 1 and loads and edits:
                    rec["wrapped"] = True
                    rec["call"] = edits[0]
        out[name] = rec
    return out


def run_grid_table(wf: Workflows):
    """rule run_grid: output key -> (family, getter, direct, kwargs, call)"""
    f = wf.file("run_grid")
    rule = f.rules.get("run_grid")
    if rule is None or rule.run is None:
        raise AnalysisError("anchor vanished: rule run_grid in workflow/run_grid")
    imps = imports_of(f.toplevel)
    imps.update(imports_of(rule.run))
    # the FullGrid variable
    fg_names = set()
    ctor = None
    for n in ast.walk(rule.run):
        if isinstance(n, ast.Assign) and isinstance(n.value, ast.Call) and isinstance(n.value.func, ast.Name) and n.value.func.id == "FullGrid" \
                and isinstance(n.targets[0], ast.Name):
            fg_names.add(n.targets[0].id)
            ctor = n.value
    table = {}
    for n in ast.walk(rule.run):
        if isinstance(n, ast.Call):
            d = dotted_in(imps, n.func)
            if d in SAVE_FAMILY and n.args:
                dest = n.args[0]
                key = dest.attr if isinstance(dest, ast.Attribute) and isinstance(dest.value, ast.Name) and dest.value.id == "output" else None
                g, direct, kw = getter_of(n.args[1], fg_names) if len(n.args) > 1 else (None, False, {})
                table[key] = {"family": SAVE_FAMILY[d], "getter": g, "direct": direct, "kwargs": kw, "call": n}
    return rule, table, ctor, f


def fullgrid_constructions(repo: Repo, wf: Workflows):
    """every FullGrid(...) call in the workflows and scripts -> (where, call, bound args b/o/t/factor/cartesian)"""
    out = []

    def scan(tree, where, params_section=None):
        for n in ast.walk(tree):
            if isinstance(n, ast.Call) and isinstance(n.func, ast.Name) and n.func.id == "FullGrid":
                names = ["b_grid_name", "o_grid_name", "t_grid_name", "factor", "position_grid_cartesian"]
                bound = {}
                for nm, a in zip(names, n.args):
                    bound[nm] = a
                for k in n.keywords:
                    if k.arg:
                        bound[k.arg] = k.value
                out.append((where, n, bound, params_section))
    for fn, f in wf.files.items():
        scan(f.toplevel, f"workflow/{fn}:<toplevel>")
        for r in f.rules.values():
            if r.run is not None:
                scan(r.run, f"workflow/{fn}:rule {r.name}", r.sections.get("params"))
    for mname, m in repo.modules.items():
        if mname.startswith("molgri.scripts") or mname.startswith("workflow."):
            scan(m.tree, m.relpath)
    return out


def config_key_of(e, params_section) -> Optional[str]:
    """trace an argument expression to the config key it reads: config[...]["key"] directly or through params.<name>"""
    for _ in range(4):
        if isinstance(e, ast.Call) and isinstance(e.func, ast.Name) and e.func.id in ("str", "int", "float", "bool") and e.args:
            e = e.args[0]
            continue
        break
    if isinstance(e, ast.Attribute) and isinstance(e.value, ast.Name) and e.value.id == "params" and params_section is not None:
        v = params_section.keywords.get(e.attr)
        if v is not None:
            return config_key_of(v, None)
    if isinstance(e, ast.Subscript) and isinstance(e.slice, ast.Constant) and isinstance(e.slice.value, str):
        # config["params_grid"]["num_orientations"]  -> last key
        root = e
        while isinstance(root, ast.Subscript):
            root = root.value
        if isinstance(root, ast.Name) and root.id == "config":
            return e.slice.value
    if isinstance(e, ast.Name):
        return "name:" + e.id
    if isinstance(e, ast.Attribute):
        return "attr:" + src(e)
    return None
