#!/venv/bin/python
"""Regression over the behaviour-preserving refactorings collected from sub-agents (selftest/benign/*.diff, two rounds, each confirmed
by its author to keep behaviour and pass the tests): every check is run on a scratch copy with one patch applied.
A VIOLATION (exit 1) on any of them is a false alarm of the checker and fails this script; exit 2 (inconclusive) is listed.
usage: selftest/benign_run.py [-j N] [substring ...]"""
import concurrent.futures as cf
import glob, os, re, shutil, subprocess, sys, tempfile

HERE = os.path.dirname(os.path.abspath(__file__))
VERIF = os.path.dirname(HERE)
ALL = ["C01", "C02", "C03", "C04", "C05", "C07", "C08", "C09", "C10", "C11", "C12", "C13", "C14", "C15", "C16", "C17", "C18", "C19", "C20"]
REPO = os.environ.get("VERIF_REPO", "/repo")


def one(patch):
    d = tempfile.mkdtemp(prefix="verif_ben_")
    try:
        for sub in ("molgri", "workflow"):
            shutil.copytree(os.path.join(REPO, sub), os.path.join(d, sub), ignore=shutil.ignore_patterns("__pycache__", "*.pyc"))
        r = subprocess.run(["patch", "-p1", "-s", "-d", d, "-i", patch], capture_output=True, text=True)
        if r.returncode != 0:
            return os.path.basename(patch), "SKIP (patch does not apply)", []
        res = []
        for pid in ALL:
            env = dict(os.environ, VERIF_REPO=d, VERIF_NO_EVIDENCE="1")
            rr = subprocess.run([os.path.join(VERIF, "check"), pid], env=env, capture_output=True, text=True)
            if rr.returncode != 0:
                what = re.findall(r"^\s+violated (\S+)", rr.stdout, re.M) or re.findall(r"^ANALYSIS-ERROR property=\S+ (\S+)", rr.stdout, re.M)
                res.append((pid, rr.returncode, what[:2]))
        return os.path.basename(patch), "done", res
    finally:
        shutil.rmtree(d, ignore_errors=True)


def main():
    args = sys.argv[1:]
    jobs = 8
    if args[:1] == ["-j"]:
        jobs, args = int(args[1]), args[2:]
    patches = sorted(glob.glob(os.path.join(HERE, "benign", "*.diff")))
    patches = [p for p in patches if not args or any(a in p for a in args)]
    alarms = incon = 0
    with cf.ThreadPoolExecutor(jobs) as ex:
        for name, st, res in ex.map(one, patches):
            v = [r for r in res if r[1] == 1]
            i = [r for r in res if r[1] == 2]
            alarms += len(v)
            incon += len(i)
            tag = "FALSE-ALARM" if v else ("inconclusive" if i else "ok")
            print(f"{tag:12s} {name} {st if st != 'done' else ''} " + " ".join(f"{p}={rc}{w}" for p, rc, w in v + i))
    print(f"benign: {len(patches)} patches x {len(ALL)} checks, {alarms} false alarms, {incon} inconclusive verdicts")
    return 1 if alarms else 0


if __name__ == "__main__":
    sys.exit(main())
