"""Self-validation catalogue of the checker (DESIGN section 9).

Each entry: (name, properties, [(relpath, old, new), ...], expectation)
  expectation 'fire'   : at least one ADDITIONAL violated obligation key (relative to the unchanged tree) for every listed property
  expectation 'silent' : no additional violated key and no additional inconclusive key (behaviour-preserving rewrite)
The edits are textual only to *produce* the variants; the checks analyse the ASTs of the scratch copy.
An entry whose `old` text is not found exactly once is skipped (reported), never failed.
"""
T = "molgri/molecules/transitions.py"
RM = "molgri/molecules/rate_merger.py"
FG = "molgri/space/fullgrid.py"
VO = "molgri/space/voronoi.py"
RO = "molgri/space/rotobj.py"
PO = "molgri/space/polytopes.py"
UT = "molgri/space/utils.py"
TRL = "molgri/space/translations.py"
NM = "molgri/naming.py"
IO = "molgri/io.py"
PTS = "molgri/molecules/pts.py"
RG = "workflow/run_grid"
RS = "workflow/run_sqra"

FIRE = "fire"
SILENT = "silent"

CATALOGUE = [
    # ------------------------------------------------------------------ C01
    ("c01_exponent_sign", ["C01"], [(T, "self.energies[transition_matrix.row] - self.energies[transition_matrix.col]", "self.energies[transition_matrix.col] - self.energies[transition_matrix.row]")], FIRE),
    ("c01_volume_col", ["C01"], [(T, "self.volumes[transition_matrix.row]", "self.volumes[transition_matrix.col]")], FIRE),
    ("c01_lost_factor_2", ["C01"], [(T, "(2 * kB * N_A * T)", "(kB * N_A * T)")], FIRE),
    ("c01_misaligned", ["C01"], [(T, "self.distances.tocoo().data", "self.distances.tocsc().tocoo().data")], FIRE),
    ("c01_plus_sums", ["C01"], [(T, "coo_array((-sums,", "coo_array((sums,")], FIRE),
    ("c01_axis0", ["C01"], [(T, "transition_matrix.sum(axis=1)", "transition_matrix.sum(axis=0)")], FIRE),
    ("c01_cap", ["C01"], [(T, "np.where(diff_energies < 5e2, diff_energies, 5e2)", "np.where(diff_energies < 5e3, diff_energies, 5e3)")], FIRE),
    ("c01_exp2", ["C01"], [(T, "np.exp(pi_exponent)", "np.exp2(pi_exponent)")], FIRE),
    ("c01_D2", ["C01"], [(T, "transition_matrix = D * self.surfaces", "transition_matrix = D * D * self.surfaces")], FIRE),
    ("c01_clip", ["C01"], [(T, "np.where(diff_energies < 5e2, diff_energies, 5e2)", "np.clip(diff_energies, -5e2, 5e2)")], FIRE),
    ("c01_alias", ["C01"], [(T, "        transition_matrix = D * self.surfaces  #/ all_distances\n", "        transition_matrix = self.surfaces\n"),
                            (T, "        transition_matrix.data /= self.distances.tocoo().data", "        transition_matrix.data = D * transition_matrix.data / self.distances.tocoo().data")], FIRE),
    ("c01_ok_negated", ["C01"], [(T, "self.energies[transition_matrix.row] - self.energies[transition_matrix.col]", "-(self.energies[transition_matrix.col] - self.energies[transition_matrix.row])")], SILENT),
    ("c01_ok_coef", ["C01"], [(T, "np.round(diff_energies,14) * 1000 / (2 * kB * N_A * T)", "np.round(diff_energies,14) * 500 / (kB * N_A * T)")], SILENT),
    ("c01_ok_assign", ["C01"], [(T, "transition_matrix.data *= np.exp(pi_exponent)", "transition_matrix.data = transition_matrix.data * np.exp(pi_exponent)")], SILENT),
    ("c01_ok_reorder", ["C01"], [(T, "        transition_matrix.data /= self.distances.tocoo().data\n        # Divide every row of transition_matrix with the corresponding volume\n        transition_matrix.data /= self.volumes[transition_matrix.row]\n",
                                  "        transition_matrix.data /= self.volumes[transition_matrix.row]\n        transition_matrix.data /= self.distances.tocoo().data\n")], SILENT),
    ("c01_ok_diags", ["C01"], [(T, "        diagonal_array = coo_array((-sums, (all_i, all_i)), shape=(len(all_i), len(all_i)))\n", "        diagonal_array = diags(-sums)\n")], SILENT),
    ("c01_ok_minimum", ["C01"], [(T, "np.where(diff_energies < 5e2, diff_energies, 5e2)", "np.minimum(diff_energies, 5e2)")], SILENT),
    # ------------------------------------------------------------------ C12
    ("c12_range_minus1", ["C12"], [(T, "range(0, len(seq) - len_window, step)", "range(0, len(seq) - len_window - 1, step)")], FIRE),
    ("c12_range_plus1", ["C12"], [(T, "range(0, len(seq) - len_window, step)", "range(0, len(seq) - len_window + 1, step)")], FIRE),
    ("c12_slice", ["C12"], [(T, "seq[k: k + len_window + 1:len_window]", "seq[k: k + len_window:len_window]")], FIRE),
    ("c12_right_mult", ["C12"], [(T, "return diagonal_matrix.dot(sparse_count_matrix)", "return sparse_count_matrix.dot(diagonal_matrix)")], FIRE),
    ("c12_no_zero_guard", ["C12"], [(T, "        sums[sums == 0] = 1\n", "")], FIRE),
    ("c12_one_sided", ["C12"], [(T, "                sparse_count_matrix[el2, el1] += 1\n", "")], FIRE),
    ("c12_step", ["C12"], [(T, "return window(seq, len_window, step=len_window)", "return window(seq, len_window, step=len_window+1)")], FIRE),
    ("c12_no_nan", ["C12"], [(T, "        if not np.isnan(start_stop_list).any():\n            yield tuple([int(el) for el in start_stop_list if not np.isnan(el)])", "        yield tuple([int(el) for el in start_stop_list])")], FIRE),
    ("c12_plus2", ["C12"], [(T, "sparse_count_matrix[el1, el2] += 1", "sparse_count_matrix[el1, el2] += 2")], FIRE),
    ("c12_ok_axis0", ["C12"], [(T, "sums = sparse_count_matrix.sum(axis=1)", "sums = sparse_count_matrix.sum(axis=0)")], SILENT),
    ("c12_ok_all", ["C12"], [(T, "if not np.isnan(start_stop_list).any():", "if not np.isnan(start_stop_list).all():")], SILENT),
    ("c12_ok_inner_only", ["C12"], [(T, "        if not np.isnan(start_stop_list).any():\n            yield tuple([int(el) for el in start_stop_list if not np.isnan(el)])", "        yield tuple([int(el) for el in start_stop_list if not np.isnan(el)])")], SILENT),
    # ------------------------------------------------------------------ C13
    ("c13_list_set", ["C13"], [(RM, "    to_keep = sorted(set(range(my_matrix.shape[1])) - set(flat_merged_indices))", "    to_keep = list(set(range(my_matrix.shape[1])) - set(flat_merged_indices))")], FIRE),
    ("c13_else_reset", ["C13"], [(T, "                index_list=current_index_list)\n        return transition_matrix, current_index_list", "                index_list=current_index_list)\n        else:\n            current_index_list = None\n        return transition_matrix, current_index_list")], FIRE),
    ("c13_unsorted_groups", ["C13"], [(RM, "    return [sorted(list(x)) for x in connected_components(G)]", "    return [list(x) for x in connected_components(G)]")], FIRE),
    ("c13_pop_asc", ["C13"], [(RM, "    for mi in flat_merged_indices[::-1]:", "    for mi in flat_merged_indices:")], FIRE),
    ("c13_no_resort", ["C13"], [(RM, "        internal_index_list[ci].sort()\n", "")], FIRE),
    ("c13_no_deepcopy", ["C13"], [(RM, "        internal_index_list = deepcopy(index_list)\n        # Note: since elements may have been dropped already, we don't use to_join integers to index my_matrix directly\n        # but always search for integers within sublists of index_list\n        reindexing_to_join = []\n        for to_join in all_to_join:", "        internal_index_list = index_list\n        reindexing_to_join = []\n        for to_join in all_to_join:")], FIRE),
    ("c13_diag_sign_sparse", ["C13"], [(RM, "        sum_diag = diags(-sums, format=\"csr\")", "        sum_diag = diags(sums, format=\"csr\")")], FIRE),
    ("c13_diag_sign_dense", ["C13"], [(RM, "        sum_diag = np.diag(-sums)", "        sum_diag = np.diag(sums)")], FIRE),
    ("c13_no_renorm", ["C13"], [(RM, "    result = sqra_normalize(result)\n", "")], FIRE),
    ("c13_rows_reversed", ["C13"], [(RM, "    result = result[to_keep, :]", "    result = result[to_keep[::-1], :]")], FIRE),
    ("c13_no_reclose", ["C13"], [(RM, "        reindexing_to_join = merge_sublists([to_join for to_join in reindexing_to_join if len(to_join) > 0])\n", "")], FIRE),
    ("c13_empty_min", ["C13"], [(RM, "    if len(too_high) > 0:\n        print(\"MIN TOO HIGH\", np.min(my_energies[too_high]))", "    print(\"MIN TOO HIGH\", np.min(my_energies[too_high]))")], FIRE),
    ("c13_ok_sorted_list", ["C13"], [(RM, "    to_keep = sorted(set(range(my_matrix.shape[1])) - set(reindexing_to_join))", "    to_keep = sorted(list(set(range(my_matrix.shape[1])) - set(reindexing_to_join)))")], SILENT),
    ("c13_ok_npsort", ["C13"], [(RM, "    flat_merged_indices.sort()\n    for mi in flat_merged_indices[::-1]:", "    for mi in sorted(flat_merged_indices, reverse=True):")], SILENT),
    # ------------------------------------------------------------------ C16
    ("c16_sort_in_else", ["C16"], [(TRL, "        # radii are always used in ascending order, whatever format produced them\n        self.trans_grid = np.sort(self.trans_grid, axis=None)\n", "            self.trans_grid = np.sort(self.trans_grid, axis=None)\n")], FIRE),
    ("c16_no_check", ["C16"], [(TRL, "        assert np.all(self.trans_grid >= 0), \"Distance from origin cannot be negative.\"\n", "")], FIRE),
    ("c16_hash_input", ["C16"], [(TRL, "hashlib.md5(self.trans_grid)", "hashlib.md5(self.user_input.encode())")], FIRE),
    ("c16_incr_sign", ["C16"], [(TRL, "        increment_grid.append(stop-start)", "        increment_grid.append(start-stop)")], FIRE),
    ("c16_third", ["C16", "C05"], [(TRL, "        increments = increments / 2\n", "        increments = increments / 3\n")], FIRE),
    ("c16_len_guard", ["C16"], [(TRL, "    if len(increments) > 1:", "    if len(increments) > 0:")], FIRE),
    ("c16_twice", ["C16"], [(TRL, "            self.trans_grid = np.linspace(*bracket_input, dtype=float)", "            self.trans_grid = np.linspace(*bracket_input, dtype=float) * NM2ANGSTROM")], FIRE),
    ("c16_abs", ["C16"], [(TRL, "        # all values must be non-negative\n", "        self.trans_grid = np.abs(self.trans_grid)\n")], FIRE),
    ("c16_ok_raise", ["C16"], [(TRL, "        assert np.all(self.trans_grid >= 0), \"Distance from origin cannot be negative.\"", "        if np.any(self.trans_grid < 0):\n            raise ValueError(\"Distance from origin cannot be negative.\")")], SILENT),
    ("c16_ok_mul_half", ["C16", "C05"], [(TRL, "        increments = increments / 2\n", "        increments = increments * 0.5\n")], SILENT),
    # ------------------------------------------------------------------ C17
    ("c17_none_gt", ["C17"], [(NM, "            elif self.algo is None and self.N is not None and self.N > 1:\n                self.algo = DEFAULT_ALGORITHM_O", "            elif self.algo is None and self.N > 1:\n                self.algo = DEFAULT_ALGORITHM_O")], FIRE),
    ("c17_two_numbers", ["C17"], [(NM, "        if len(candidates) > 1:\n            raise ValueError(f\"Found two or more numbers", "        if len(candidates) > 2:\n            raise ValueError(f\"Found two or more numbers")], FIRE),
    ("c17_wrong_zero", ["C17"], [(NM, "                elif self.N == 1:\n                    self.algo = ZERO_ALGORITHM_4D\n", "                elif self.N == 1:\n                    self.algo = ZERO_ALGORITHM_3D\n")], FIRE),
    ("c17_wrong_default", ["C17"], [(NM, "                self.algo = DEFAULT_ALGORITHM_B", "                self.algo = DEFAULT_ALGORITHM_O")], FIRE),
    ("c17_all_algs", ["C17"], [(NM, "            elif self.algo in GRID_ALGORITHMS_4D:", "            elif self.algo in ALL_GRID_ALGORITHMS:")], FIRE),
    ("c17_isalnum", ["C17"], [(NM, "            if fragment.isnumeric():", "            if fragment.isalnum():")], FIRE),
    ("c17_factory", ["C17"], [(RO, "        elif alg_name == \"fulldiv\":", "        elif alg_name == \"fulldivide\":")], FIRE),
    # ------------------------------------------------------------------ C19
    ("c19_no_mikro_entry", ["C19"], [(VO, "    def _calculate_N_N_array(self, sel_property=\"adjacency\", **kwargs) -> coo_array:\n        # the estimated model", "    def _calculate_N_N_array_unused(self, sel_property=\"adjacency\", **kwargs) -> coo_array:\n        # the estimated model")], FIRE),
    ("c19_single_radius", ["C19"], [(FG, "            if len(increments) > 0:\n                increments.append(increments[-1])", "            increments.append(increments[-1])")], FIRE),
    ("c19_kwargs", ["C19"], [(VO, "    def get_voronoi_adjacency(self, **kwargs) -> coo_array:\n        result = np.eye(self.N_points)", "    def get_voronoi_adjacency(self) -> coo_array:\n        result = np.eye(self.N_points)")], FIRE),
    ("c19_attr", ["C19"], [(VO, "        self.additional_points = additional_points\n", "")], FIRE),
    ("c19_shape", ["C19", "C02"], [(FG, "(row, col)), shape=(n_total, n_total),", "(row, col)), shape=(n_total, n_o),")], FIRE),
    # ------------------------------------------------------------------ C05
    ("c05_between_shift", ["C05"], [(FG, "            for layer_i, radius in enumerate(between_radii[:-1]):", "            for layer_i, radius in enumerate(between_radii[1:]):")], FIRE),
    ("c05_boundary_radius", ["C05"], [(FG, "            multiply = self.get_radii()", "            multiply = between_radii")], FIRE),
    ("c05_half_lost", ["C05"], [(FG, "            multiply = between_radii ** 2 / 2 - subtracted_radii**2/2", "            multiply = between_radii ** 2 / 2 - subtracted_radii**2")], FIRE),
    ("c05_incr_shift", ["C05"], [(FG, "            increments = self.t_grid.get_increments()[1:]", "            increments = self.t_grid.get_increments()[:-1]")], FIRE),
    ("c05_volume_power", ["C05"], [(FG, "t_property=radius_above**3) -", "t_property=radius_above**2) -")], FIRE),
    ("c05_blocks", ["C05"], [(FG, "            my_blocks.extend([None,] * n_t)\n            my_blocks = my_blocks * n_t\n            my_blocks = my_blocks[:-n_t]", "            my_blocks.extend([None,] * (n_t-1))\n            my_blocks = my_blocks * n_t\n            my_blocks = my_blocks[:-(n_t-1)]")], FIRE),
    ("c05_mask", ["C05"], [(FG, "                largest_column = same_radius_neighbours.col < (ind_n_t + 1) * n_o", "                largest_column = same_radius_neighbours.col < (ind_n_t + 2) * n_o")], FIRE),
    ("c05_offset", ["C05"], [(FG, "        same_ray_neighbours += diags(my_diags, offsets=-n_o,", "        same_ray_neighbours += diags(my_diags, offsets=-n_t,")], FIRE),
    ("c05_tile_swap", ["C05", "C09"], [(FG, "        tiled_o = np.tile(o_property, reps=(n_t, 1))\n        tiled_t = np.repeat(t_property, n_o)[:, np.newaxis]", "        tiled_o = np.repeat(o_property, n_t, axis=0)\n        tiled_t = np.tile(t_property, n_o)[:, np.newaxis]")], FIRE),
    ("c05_area_power", ["C05"], [(FG, "                my_diags.extend(radius_1_areas * radius**2)", "                my_diags.extend(radius_1_areas * radius)")], FIRE),
    ("c05_ok_mul", ["C05"], [(FG, "            multiply = between_radii ** 2 / 2 - subtracted_radii**2/2", "            multiply = 0.5 * (between_radii ** 2 - subtracted_radii**2)")], SILENT),
    # ------------------------------------------------------------------ C09
    ("c09_loops_swapped", ["C09"], [(FG, "        for o_rot in position_grid:\n            for b_rot in quaternions:\n                # coordinates are (x, y, z, q0, q1, q2, q3)", "        for b_rot in quaternions:\n            for o_rot in position_grid:\n                # coordinates are (x, y, z, q0, q1, q2, q3)")], FIRE),
    ("c09_tile_repeat", ["C09"], [(FG, "        repeated_natural_num = np.tile(np.arange(self.get_b_N()), self.get_t_N()*self.get_o_N())", "        repeated_natural_num = np.repeat(np.arange(self.get_b_N()), self.get_t_N()*self.get_o_N())")], FIRE),
    ("c09_unsorted_unique", ["C09"], [(FG, "    unique_quaternions = quaternion_array[np.sort(np.unique(np.round(quaternion_array, 8), return_index=True,\n                                                                     axis=0)[1])]", "    unique_quaternions = quaternion_array[np.unique(np.round(quaternion_array, 8), return_index=True,\n                                                                     axis=0)[1]]")], FIRE),
    ("c09_columns", ["C09"], [(FG, "    quaternion_array = full_array[:, 3:]", "    quaternion_array = full_array[:, 4:]")], FIRE),
    ("c09_full_sphere", ["C09"], [(FG, "        quaternions = self.b_rotations.get_grid_as_array(only_upper=True)", "        quaternions = self.b_rotations.get_grid_as_array(only_upper=False)")], FIRE),
    # ------------------------------------------------------------------ C02 / C04 / C14 (fold)
    ("fold_truth", ["C02", "C04", "C14"], [(VO, "                if len(opp_ind) > 0:", "                if opp_ind:")], FIRE),
    ("fold_const", ["C02", "C04"], [(VO, "                        adj_matrix[i][ind2opp_index[j]] = adj_matrix[i][j]", "                        adj_matrix[i][ind2opp_index[j]] = True")], FIRE),
    ("fold_two_lists", ["C02", "C04"], [(VO, "            extracted_arr[:, available_indices] = adj_matrix[:, available_indices]", "            extracted_arr[:, available_indices[:-1]] = adj_matrix[:, available_indices[:-1]]")], FIRE),
    ("fold_ok_size", ["C02", "C04", "C14"], [(VO, "                if len(opp_ind) > 0:", "                if opp_ind.size:")], SILENT),
    ("c02_stride", ["C02"], [(FG, "                        row.append(n_b * i + k)\n                        col.append(n_b * j + k)", "                        row.append(n_o * i + k)\n                        col.append(n_o * j + k)")], FIRE),
    ("c02_factor_power", ["C02"], [(FG, "            my_factor = self.factor**2", "            my_factor = self.factor")], FIRE),
    ("c02_block_list", ["C02"], [(FG, "            my_blocks.extend([None, ] * (n_t * n_o))", "            my_blocks.extend([None, ] * (n_t * n_o - 1))")], FIRE),
    ("c02_volume_loops", ["C02"], [(FG, "        for o_rot in pos_volumes:\n            for b_rot in ori_volumes:", "        for b_rot in ori_volumes:\n            for o_rot in pos_volumes:")], FIRE),
    ("c02_volume_factor", ["C02"], [(FG, "o_rot*(self.factor**3)*b_rot", "o_rot*(self.factor**2)*b_rot")], FIRE),
    ("c02_unfolded", ["C02"], [(FG, "._calculate_N_N_array(sel_property=sel_property)\n        else:", "._calculate_N_N_array(sel_property=sel_property, include_opposing_neighbours=False)\n        else:")], FIRE),
    ("c02_const_value", ["C02"], [(FG, "                        values.append(el)", "                        values.append(1)")], FIRE),
    ("c02_ok_outer", ["C02"], [(FG, "        all_volumes = []\n        for o_rot in pos_volumes:\n            for b_rot in ori_volumes:\n                all_volumes.append(o_rot*(self.factor**3)*b_rot)\n        return all_volumes",
                                "        return list(np.outer(np.asarray(pos_volumes) * self.factor**3, np.asarray(ori_volumes)).ravel())")], SILENT),
    # ------------------------------------------------------------------ C03 / C04
    ("c03_threshold", ["C03", "C04"], [(VO, "            if len(set_1.intersection(set_2)) >= self.get_dim() - 1:", "            if len(set_1.intersection(set_2)) >= self.get_dim():")], FIRE),
    ("c03_one_sided", ["C03", "C04"], [(VO, "                columns.extend([index_tuple[1], index_tuple[0]])", "                columns.extend([index_tuple[1], index_tuple[1]])")], FIRE),
    ("c03_approx_default", ["C03"], [(VO, "    def get_voronoi_volumes(self, approx=False) -> Optional[NDArray]:\n        \"\"\"\n        From Voronoi cells you may also calculate areas on the sphere that are closest each grid point. The order of\n        areas is the same as the order of points in self.grid. In Hyperspheres, these are volumes and only the\n        approximation method is possible.\n\n        Approximations", "    def get_voronoi_volumes(self, approx=True) -> Optional[NDArray]:\n        \"\"\"\n        From Voronoi cells you may also calculate areas on the sphere that are closest each grid point. The order of\n        areas is the same as the order of points in self.grid. In Hyperspheres, these are volumes and only the\n        approximation method is possible.\n\n        Approximations")], FIRE),
    ("c04_qdist", ["C04"], [(UT, "    return np.where(theta > pi / 2, pi-theta, theta)", "    return np.where(theta > pi / 3, pi-theta, theta)")], FIRE),
    ("c04_dispatch", ["C03", "C04", "C15"], [(RO, "        if self.dimensions == 3 and self.N >= 4:", "        if self.dimensions == 3 and self.N > 4:")], FIRE),
    ("c04_doublecover", ["C04", "C15"], [(RO, "            full_hypersphere_grid[N + i] = inverse_q", "            full_hypersphere_grid[2*N - 1 - i] = inverse_q")], FIRE),
    ("c04_polarity", ["C04", "C15"], [(VO, "        upper_indices = [i for i, point in enumerate(self.my_array) if q_in_upper_sphere(point)]\n        return sorted(upper_indices)", "        upper_indices = [i for i, point in enumerate(self.my_array) if not q_in_upper_sphere(point)]\n        return sorted(upper_indices)")], FIRE),
    ("c04_ok_where_swapped", ["C04"], [(UT, "    return np.where(theta > pi / 2, pi-theta, theta)", "    return np.where(theta <= pi / 2, theta, pi-theta)")], SILENT),
    # ------------------------------------------------------------------ C15
    ("c15_no_half", ["C15"], [(VO, "        return np.array([detailed.area / 2.0 for detailed in all_hulls_detailed])", "        return np.array([detailed.area for detailed in all_hulls_detailed])")], FIRE),
    ("c15_equal_share", ["C15"], [(VO, "            return np.array([2 * pi**2 /2 / self.N_points] * self.N_points)", "            return np.array([2 * pi**2 / self.N_points] * self.N_points)")], FIRE),
    ("c15_axis", ["C15"], [(VO, "            extra_points_belongings = np.argmin(cdist(self.additional_points, all_points,\n                                                      metric=\"cos\"), axis=1)", "            extra_points_belongings = np.argmin(cdist(self.additional_points, all_points,\n                                                      metric=\"cos\"), axis=0)")], FIRE),
    ("c15_filter_polarity", ["C15"], [(VO, "if q_in_upper_sphere(ap)])", "if not q_in_upper_sphere(ap)])")], FIRE),
    ("c15_ok_mul_half", ["C15"], [(VO, "        return np.array([detailed.area / 2.0 for detailed in all_hulls_detailed])", "        return np.array([detailed.area * 0.5 for detailed in all_hulls_detailed])")], SILENT),
    # ------------------------------------------------------------------ C08 / C18
    ("c08_no_seed_polytope", ["C08", "C18"], [(PO, "        np.random.seed(15)\n        np.random.shuffle(new_nodes)", "        np.random.shuffle(new_nodes)")], FIRE),
    ("c08_no_seed_randomq", ["C08"], [(RO, "        np.random.seed(0)\n        all_quaternions = random_quaternions(self.N)", "        all_quaternions = random_quaternions(self.N)")], FIRE),
    ("c08_seed_data", ["C08"], [(VO, "        np.random.seed(1)\n", "        np.random.seed(len(my_array))\n")], FIRE),
    ("c08_non_idempotent", ["C08"], [(VO, "if q_in_upper_sphere(ap)])", "if q_in_upper_sphere(ap)])[:len(self.additional_points)//2]")], FIRE),
    ("c18_index_reverse", ["C08", "C18"], [(PO, "= self.current_max_ci + i", "= self.current_max_ci + len(new_nodes) - 1 - i")], FIRE),
    ("c18_level_filter", ["C08", "C18"], [(PO, "if l == self.current_level]", "if l >= self.current_level - 1]")], FIRE),
    ("c18_suffix", ["C08", "C18"], [(PO, "_get_attributes_array_sorted_by_index(attribute_name)[:N]", "_get_attributes_array_sorted_by_index(attribute_name)[-N:]")], FIRE),
    ("c18_cache", ["C08", "C18"], [(PO, "        elif self.current_nodes[1] == N_nodes:", "        elif self.current_nodes[0] is not None:")], FIRE),
    ("c18_no_sort", ["C08", "C18"], [(PO, "        all_ci.sort()\n", "")], FIRE),
    ("c18_projection", ["C08", "C18"], [(PO, "projection=normalise_vectors(polytope_point))", "projection=normalise_vectors(polytope_point, length=self.side_len))")], FIRE),
    ("c08_mutable_default", ["C08"], [(VO, "    def _additional_points_per_cell(self) -> List:\n        \"\"\"\n        For half voronoi", "    def _additional_points_per_cell(self, cache=[]) -> List:\n        \"\"\"\n        For half voronoi")], FIRE),
    ("c08_ok_seed_name", ["C08", "C18"], [(PO, "        np.random.seed(15)\n", "        np.random.seed(14 + 1)\n")], SILENT),
    # ------------------------------------------------------------------ C10
    ("c10_no_reset", ["C10"], [(PTS, "            self.moving_molecule.atoms.positions = starting_positions\n", "")], FIRE),
    ("c10_transpose", ["C10"], [(PTS, "rotation_body.as_matrix(), point=", "rotation_body.as_matrix().T, point=")], FIRE),
    ("c10_inv", ["C10"], [(PTS, "rotation_body.as_matrix(), point=", "rotation_body.inv().as_matrix(), point=")], FIRE),
    ("c10_neg_translate", ["C10"], [(PTS, "            self.moving_molecule.atoms.translate(position)", "            self.moving_molecule.atoms.translate(-position)")], FIRE),
    ("c10_merge_order", ["C10"], [(PTS, "Merge(self.static_molecule.atoms, self.moving_molecule.atoms)", "Merge(self.moving_molecule.atoms, self.static_molecule.atoms)")], FIRE),
    ("c10_columns", ["C10"], [(PTS, "            orientation = se3_coo[3:]", "            orientation = se3_coo[2:6]")], FIRE),
    ("c10_ok_double_inv", ["C10"], [(PTS, "rotation_body.as_matrix(), point=", "rotation_body.inv().inv().as_matrix(), point=")], SILENT),
    ("c10_ok_origin", ["C10"], [(PTS, "            self.moving_molecule.atoms.rotate(rotation_body.as_matrix(), point=self.moving_molecule.atoms.center_of_mass())", "            self.moving_molecule.atoms.rotate(rotation_body.as_matrix())")], SILENT),
    # ------------------------------------------------------------------ C11
    ("c11_stride", ["C11"], [(T, "t_assignments * len(self.o_array) + o_assignments", "t_assignments * len(self.t_array) + o_assignments")], FIRE),
    ("c11_bound", ["C11"], [(T, "0.5 * (self.t_array[-1] - self.t_array[-2])", "0.5 * (self.t_array[-2] - self.t_array[-3])")], FIRE),
    ("c11_nan_polarity", ["C11"], [(T, "            if np.linalg.norm(ag.center_of_mass()) > outer_bound:", "            if np.linalg.norm(ag.center_of_mass()) < outer_bound:")], FIRE),
    ("c11_argmax", ["C11"], [(T, "        result = np.argmin(all_possible_distances, axis=0)", "        result = np.argmax(all_possible_distances, axis=0)")], FIRE),
    ("c11_axis", ["C11"], [(T, "np.argmin(alignment_magnitudes, axis=0)", "np.argmin(alignment_magnitudes, axis=1)")], FIRE),
    ("c11_no_abs", ["C11"], [(T, "np.argmin(np.abs(self.t_array - np.linalg.norm(ag.center_of_mass())))", "np.argmin(self.t_array - np.linalg.norm(ag.center_of_mass()))")], FIRE),
    ("c11_selection", ["C11", "C10"], [(T, "        return f\"bynum  {num_atoms_m1+1}:{num_atoms_total+1}\"", "        return f\"bynum  {num_atoms_m2+1}:{num_atoms_total+1}\"")], FIRE),
    ("c11_ok_bound_form", ["C11"], [(T, "self.t_array[-1] + 0.5 * (self.t_array[-1] - self.t_array[-2])", "1.5 * self.t_array[-1] - 0.5 * self.t_array[-2]")], SILENT),
    # ------------------------------------------------------------------ C14
    ("c14_swap_kwargs", ["C14"], [(RS, "distances=all_distances,surfaces=all_surfaces)", "distances=all_surfaces,surfaces=all_distances)")], FIRE),
    ("c14_swap_inputs", ["C14"], [(RS, "        distances_array = rules.run_grid.output.distances_array,\n        borders_array = rules.run_grid.output.borders_array,\n        volumes = rules.run_grid.output.volumes,\n    output:\n        rate_matrix", "        distances_array = rules.run_grid.output.borders_array,\n        borders_array = rules.run_grid.output.distances_array,\n        volumes = rules.run_grid.output.volumes,\n    output:\n        rate_matrix")], FIRE),
    ("c14_asc", ["C14"], [(T, "        idx = eigenval.argsort()[::-1]", "        idx = eigenval.argsort()")], FIRE),
    ("c14_rows", ["C14"], [(T, "        eigenvec = eigenvec[:, idx]", "        eigenvec = eigenvec[idx]")], FIRE),
    ("c14_no_transpose", ["C14"], [(T, "eigs(self.matrix_to_decompose.T, k=k", "eigs(self.matrix_to_decompose, k=k")], FIRE),
    ("c14_roles", ["C14"], [(RG, "        fg = FullGrid(params.n_points_orientations, params.n_points_directions,", "        fg = FullGrid(params.n_points_directions, params.n_points_orientations,")], FIRE),
    ("c14_ok_kw_order", ["C14"], [(RS, "SQRA(energies=energies,volumes=all_volumes,distances=all_distances,surfaces=all_surfaces)", "SQRA(energies=energies,surfaces=all_surfaces,distances=all_distances,volumes=all_volumes)")], SILENT),
    # ------------------------------------------------------------------ C20
    ("c20_skiprows", ["C20"], [(IO, "skiprows=13", "skiprows=12")], FIRE),
    ("c20_header", ["C20"], [(IO, "skiprows=13, header=None, names=column_names", "skiprows=13, header=0, names=column_names")], FIRE),
    ("c20_range", ["C20"], [(IO, "                for i in range(0, 10):", "                for i in range(0, 9):")], FIRE),
    ("c20_loader_T", ["C20"], [(IO, "        return sparse.load_npz(path_borders_array)", "        return sparse.load_npz(path_borders_array).T")], FIRE),
    ("c20_wrong_item", ["C20"], [(IO, "        sparse.save_npz(path_borders_array, self.fg.get_full_borders())", "        sparse.save_npz(path_borders_array, self.fg.get_full_distances())")], FIRE),
    ("c20_sorted_volumes", ["C20"], [(IO, "        np.save(path_volumes, self.fg.get_total_volumes())", "        np.save(path_volumes, sorted(self.fg.get_total_volumes()))")], FIRE),
    ("c20_run_grid_swap", ["C20", "C14"], [(RG, "        sparse.save_npz(output.borders_array,fg.get_full_borders())\n        sparse.save_npz(output.distances_array,fg.get_full_distances())", "        sparse.save_npz(output.borders_array,fg.get_full_distances())\n        sparse.save_npz(output.distances_array,fg.get_full_borders())")], FIRE),
    ("c20_legend_text", ["C20"], [(IO, "                        result.append(split_line[-2])", "                        result.append(split_line[-1])")], FIRE),
    ("c20_sort_column", ["C20"], [(IO, "        return self.load_energy()[energy_type].to_numpy()", "        return self.load_energy()[energy_type].sort_values().to_numpy()")], FIRE),
    ("c20_ok_no_header_kw", ["C20"], [(IO, "skiprows=13, header=None, names=column_names", "skiprows=13, names=column_names")], SILENT),
    ("c20_ok_values", ["C20"], [(IO, "        return self.load_energy()[energy_type].to_numpy()", "        return self.load_energy()[energy_type].values")], SILENT),

    # ------------------------------------------------------------------ further behaviour-preserving rewrites (false-alarm probes)
    ("ok_c03_two_appends", ["C03", "C04"], [(VO, "                rows.extend([index_tuple[0], index_tuple[1]])\n                columns.extend([index_tuple[1], index_tuple[0]])", "                rows.append(index_tuple[0])\n                rows.append(index_tuple[1])\n                columns.append(index_tuple[1])\n                columns.append(index_tuple[0])")], SILENT),
    ("ok_c03_threshold_form", ["C03", "C04"], [(VO, "            if len(set_1.intersection(set_2)) >= self.get_dim() - 1:", "            if len(set_1 & set_2) > self.get_dim() - 2:")], SILENT),
    ("ok_c11_method_argmin", ["C11"], [(T, "        result = np.argmin(all_possible_distances, axis=0)", "        result = all_possible_distances.argmin(axis=0)")], SILENT),
    ("ok_c12_where", ["C12"], [(T, "        sums[sums == 0] = 1\n", "        sums = np.where(sums == 0, 1, sums)\n")], SILENT),
    ("ok_c14_argsort_neg", ["C14"], [(T, "        idx = eigenval.argsort()[::-1]", "        idx = np.argsort(eigenval)[::-1]")], SILENT),
    ("ok_c15_method_argmin", ["C15", "C08"], [(VO, "            extra_points_belongings = np.argmin(cdist(self.additional_points, all_points,\n                                                      metric=\"cos\"), axis=1)", "            extra_points_belongings = cdist(self.additional_points, all_points,\n                                                      metric=\"cos\").argmin(axis=1)")], SILENT),
    ("ok_c18_sorted", ["C18", "C08"], [(PO, "        all_ci.sort()\n", "        all_ci = sorted(all_ci)\n")], SILENT),
    ("ok_c18_comprehension", ["C18", "C08"], [(PO, "        all_ci = []\n        for upp in unique_projected_points:\n            all_ci.append(which_row_is_k(projected_points, upp)[0])\n        all_ci.sort()\n", "        all_ci = sorted(which_row_is_k(projected_points, upp)[0] for upp in unique_projected_points)\n")], SILENT),
    ("ok_c19_truthy_list", ["C19", "C05", "C02"], [(FG, "            if len(increments) > 0:\n                increments.append(increments[-1])", "            if increments:\n                increments.append(increments[-1])")], SILENT),
    ("ok_c02_commuted", ["C02"], [(FG, "                        row.append(n_b * i + k)\n                        col.append(n_b * j + k)", "                        row.append(i * n_b + k)\n                        col.append(k + j * n_b)")], SILENT),
    ("ok_c20_range", ["C20"], [(IO, "                for i in range(0, 10):", "                for i in range(10):")], SILENT),
    ("ok_c01_minus_one", ["C01"], [(T, "coo_array((-sums,", "coo_array((-1 * sums,")], SILENT),
    ("ok_c01_asarray", ["C01"], [(T, "        sums = np.array(sums).squeeze()", "        sums = np.asarray(sums).ravel()")], SILENT),
    ("ok_c16_sorted_flatten", ["C16"], [(TRL, "        self.trans_grid = np.sort(self.trans_grid, axis=None)\n", "        self.trans_grid = np.sort(np.ravel(self.trans_grid))\n")], SILENT),
    ("ok_c13_keep_loop", ["C13"], [(RM, "    for mi in flat_merged_indices[::-1]:", "    for mi in reversed(flat_merged_indices):")], SILENT),
    ("ok_c09_names", ["C09"], [(FG, "        for o_rot in position_grid:\n            for b_rot in quaternions:\n                # coordinates are (x, y, z, q0, q1, q2, q3)", "        for pos in position_grid:\n            for b_rot in quaternions:\n                o_rot = pos\n                # coordinates are (x, y, z, q0, q1, q2, q3)")], SILENT),
    ("ok_c10_kw", ["C10"], [(PTS, "            self.moving_molecule.atoms.translate(position)", "            self.moving_molecule.atoms.translate(t=position)")], SILENT),
    ("ok_c17_eq_order", ["C17"], [(NM, "                elif self.N == 1:\n                    self.algo = ZERO_ALGORITHM_4D\n", "                elif 1 == self.N:\n                    self.algo = ZERO_ALGORITHM_4D\n")], SILENT),
    ("ok_c05_enumerate", ["C05"], [(FG, "            for layer_i, radius in enumerate(between_radii[:-1]):", "            for layer_i, radius in enumerate(between_radii[:len(between_radii) - 1]):")], SILENT),
    ("ok_c04_theta_name", ["C04"], [(UT, "    return np.where(theta > pi / 2, pi-theta, theta)", "    folded = np.where(theta > pi / 2, pi-theta, theta)\n    return folded")], SILENT),

    ("ok_c10_alias", ["C10"], [(PTS, "        starting_positions = self.moving_molecule.atoms.positions\n        for se3_coo in fg:\n            self.moving_molecule.atoms.positions = starting_positions\n            position = se3_coo[:3]\n            orientation = se3_coo[3:]\n            rotation_body = Rotation.from_quat(orientation)\n            self.moving_molecule.atoms.rotate(rotation_body.as_matrix(), point=self.moving_molecule.atoms.center_of_mass())\n            self.moving_molecule.atoms.translate(position)",
                               "        atoms = self.moving_molecule.atoms\n        starting_positions = atoms.positions.copy()\n        for se3_coo in fg:\n            atoms.positions = starting_positions\n            position = se3_coo[:3]\n            orientation = se3_coo[3:]\n            rotation_body = Rotation.from_quat(orientation)\n            atoms.rotate(rotation_body.as_matrix(), point=atoms.center_of_mass())\n            atoms.translate(position)")], SILENT),
    ("ok_c10_translate_first", ["C10"], [(PTS, "            self.moving_molecule.atoms.rotate(rotation_body.as_matrix(), point=self.moving_molecule.atoms.center_of_mass())\n            self.moving_molecule.atoms.translate(position)", "            self.moving_molecule.atoms.translate(position)\n            self.moving_molecule.atoms.rotate(rotation_body.as_matrix(), point=self.moving_molecule.atoms.center_of_mass())")], SILENT),
    ("c10_translate_first_origin", ["C10"], [(PTS, "            self.moving_molecule.atoms.rotate(rotation_body.as_matrix(), point=self.moving_molecule.atoms.center_of_mass())\n            self.moving_molecule.atoms.translate(position)", "            self.moving_molecule.atoms.translate(position)\n            self.moving_molecule.atoms.rotate(rotation_body.as_matrix())")], FIRE),
    ("ok_c10_enumerate", ["C10"], [(PTS, "        for se3_coo in fg:", "        for _frame, se3_coo in enumerate(fg):")], SILENT),
    ("c10_reversed", ["C10"], [(PTS, "        for se3_coo in fg:", "        for se3_coo in fg[::-1]:")], FIRE),
    ("c10_no_copy", ["C10"], [(PTS, "        self.moving_molecule = molecule2.copy()  # Important!", "        self.moving_molecule = molecule2  # Important!")], FIRE),
    ("c10_no_once", ["C10"], [(PTS, "        if self.pt is None:\n            # Step 1", "        if True:\n            # Step 1")], FIRE),
    ("c10_merge_before", ["C10"], [(PTS, "            self.moving_molecule.atoms.translate(position)\n            merged_universe = Merge(self.static_molecule.atoms, self.moving_molecule.atoms)", "            merged_universe = Merge(self.static_molecule.atoms, self.moving_molecule.atoms)\n            self.moving_molecule.atoms.translate(position)")], FIRE),
    ("c10_writer_plus", ["C10"], [(IO, "        self.central_molecule.atoms.translate(-com1)", "        self.central_molecule.atoms.translate(com1)")], FIRE),
    ("c10_writer_swapped", ["C10"], [(IO, "Pseudotrajectory(self.central_molecule, self.moving_molecule, self.grid_array)", "Pseudotrajectory(self.moving_molecule, self.central_molecule, self.grid_array)")], FIRE),
    ("ok_c10_writer_kw", ["C10"], [(IO, "Pseudotrajectory(self.central_molecule, self.moving_molecule, self.grid_array)", "Pseudotrajectory(molecule1=self.central_molecule, full_grid=self.grid_array, molecule2=self.moving_molecule)")], SILENT),
    ("ok_c10_n_atoms", ["C10", "C11"], [(PTS, "        num_atoms_m1 = len(self.static_molecule.atoms)\n        num_atoms_m2 = len(self.moving_molecule.atoms)", "        num_atoms_m1 = self.static_molecule.atoms.n_atoms\n        num_atoms_m2 = self.moving_molecule.atoms.n_atoms")], SILENT),

    ("c08_memo_by_reference", ["C08", "C02"], [
        (VO, "        self.additional_points = additional_points\n", "        self.additional_points = additional_points\n        self._saved_N_N_arrays = dict()\n"),
        (VO, "    def _calculate_N_N_array(self, sel_property=\"adjacency\", **kwargs):\n        reduced_regions = self.get_all_voronoi_regions(reduced=True)\n", "    def _calculate_N_N_array(self, sel_property=\"adjacency\", **kwargs):\n        if sel_property in self._saved_N_N_arrays:\n            return self._saved_N_N_arrays[sel_property]\n        reduced_regions = self.get_all_voronoi_regions(reduced=True)\n"),
        (VO, "        adj_matrix = coo_array((elements, (rows, columns)), shape=(N, N))\n        return adj_matrix", "        adj_matrix = coo_array((elements, (rows, columns)), shape=(N, N))\n        self._saved_N_N_arrays[sel_property] = adj_matrix\n        return adj_matrix")], FIRE),
    ("ok_c08_memo_copy", ["C08", "C02"], [
        (VO, "        self.additional_points = additional_points\n", "        self.additional_points = additional_points\n        self._saved_N_N_arrays = dict()\n"),
        (VO, "    def _calculate_N_N_array(self, sel_property=\"adjacency\", **kwargs):\n        reduced_regions = self.get_all_voronoi_regions(reduced=True)\n", "    def _calculate_N_N_array(self, sel_property=\"adjacency\", **kwargs):\n        if sel_property in self._saved_N_N_arrays:\n            return self._saved_N_N_arrays[sel_property].copy()\n        reduced_regions = self.get_all_voronoi_regions(reduced=True)\n"),
        (VO, "        adj_matrix = coo_array((elements, (rows, columns)), shape=(N, N))\n        return adj_matrix", "        adj_matrix = coo_array((elements, (rows, columns)), shape=(N, N))\n        self._saved_N_N_arrays[sel_property] = adj_matrix.copy()\n        return adj_matrix")], SILENT),

    ("ok_c10_batch_matrices", ["C10"], [(PTS, "        for se3_coo in fg:\n            self.moving_molecule.atoms.positions = starting_positions\n            position = se3_coo[:3]\n            orientation = se3_coo[3:]\n            rotation_body = Rotation.from_quat(orientation)\n            self.moving_molecule.atoms.rotate(rotation_body.as_matrix(), point=",
                                        "        body_matrices = Rotation.from_quat(fg[:, 3:]).as_matrix()\n        for i, se3_coo in enumerate(fg):\n            self.moving_molecule.atoms.positions = starting_positions\n            position = se3_coo[:3]\n            self.moving_molecule.atoms.rotate(body_matrices[i], point=")], SILENT),
    ("c10_batch_modulo", ["C10"], [(PTS, "        for se3_coo in fg:\n            self.moving_molecule.atoms.positions = starting_positions\n            position = se3_coo[:3]\n            orientation = se3_coo[3:]\n            rotation_body = Rotation.from_quat(orientation)\n            self.moving_molecule.atoms.rotate(rotation_body.as_matrix(), point=",
                                   "        body_matrices = Rotation.from_quat(fg[:, 3:]).as_matrix()\n        for i, se3_coo in enumerate(fg):\n            self.moving_molecule.atoms.positions = starting_positions\n            position = se3_coo[:3]\n            self.moving_molecule.atoms.rotate(body_matrices[i % 8], point=")], FIRE),
    ("c10_conditional_translate", ["C10"], [(PTS, "            self.moving_molecule.atoms.translate(position)\n", "            if len(self.moving_molecule.atoms) > 1:\n                self.moving_molecule.atoms.translate(position)\n")], FIRE),

    ("c18_eps_tolerance", ["C18"], [(PO, "                    if np.isclose(node_dist, edge_len):", "                    if np.isclose(node_dist, edge_len, rtol=np.finfo(float).eps, atol=0):")], FIRE),
    ("c18_exact_equal", ["C18"], [(PO, "                    if np.isclose(node_dist, edge_len):", "                    if node_dist == edge_len:")], FIRE),
    ("ok_c18_tolerance", ["C18"], [(PO, "                    if np.isclose(node_dist, edge_len):", "                    if np.isclose(node_dist, edge_len, rtol=1e-7, atol=1e-10):")], SILENT),
    ("c18_pruned_walk", ["C18"], [(PO, "    for neighbor_list in [graph.neighbors(n) for n in direct_neighbours]:", "    for neighbor_list in [graph.neighbors(n) for n in direct_neighbours if graph.nodes[n][\"level\"] > 0]:")], FIRE),
    ("ok_c18_nested_walk", ["C18"], [(PO, "    for neighbor_list in [graph.neighbors(n) for n in direct_neighbours]:\n        for n in neighbor_list:", "    for via in direct_neighbours:\n        for n in graph.neighbors(via):")], SILENT),
]
