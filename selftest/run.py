#!/venv/bin/python
"""Self-validation of the checker: applies each catalogue variant to a scratch copy of /repo (outside /repo and /verif) and
runs the listed property checks on it.

  fire   : the check must exit 1 (VIOLATION with an abstract witness) for every listed property
  silent : the check must exit 0 (behaviour-preserving rewrite: no violation, not even an inconclusive verdict)

usage: selftest/run.py [-j N] [name-substring ...]      exit 0 iff every applicable entry behaves as expected
The clean tree has no violated and no inconclusive obligation, so "additional key" == "any key".
"""
import concurrent.futures as cf
import os
import re
import shutil
import subprocess
import sys
import tempfile

HERE = os.path.dirname(os.path.abspath(__file__))
VERIF = os.path.dirname(HERE)
sys.path.insert(0, HERE)
from catalogue import CATALOGUE, FIRE, SILENT  # noqa: E402

REPO = os.environ.get("VERIF_REPO", "/repo")


def one(entry):
    name, pids, edits, expect = entry
    d = tempfile.mkdtemp(prefix="verif_st_")
    try:
        for sub in ("molgri", "workflow"):
            shutil.copytree(os.path.join(REPO, sub), os.path.join(d, sub), ignore=shutil.ignore_patterns("__pycache__", "*.pyc"))
        for rel, old, new in edits:
            p = os.path.join(d, rel)
            s = open(p).read()
            if s.count(old) != 1:
                return name, "SKIP", f"edit anchor occurs {s.count(old)} times in {rel}", []
            open(p, "w").write(s.replace(old, new))
        # the variant must still compile
        for rel, _, _ in edits:
            if rel.endswith(".py"):
                try:
                    compile(open(os.path.join(d, rel)).read(), rel, "exec")
                except SyntaxError as e:
                    return name, "SKIP", f"variant does not compile: {e}", []
        res = []
        ok = True
        for pid in pids:
            env = dict(os.environ, VERIF_REPO=d, VERIF_NO_EVIDENCE="1")
            r = subprocess.run([os.path.join(VERIF, "check"), pid], env=env, capture_output=True, text=True)
            want = 1 if expect == FIRE else 0
            viol = re.findall(r"^\s+violated (\S+)", r.stdout, re.M)
            inc = re.findall(r"^ANALYSIS-ERROR property=\S+ (\S+)", r.stdout, re.M)
            res.append((pid, r.returncode, viol[:4], inc[:3]))
            if r.returncode != want:
                ok = False
        return name, "OK" if ok else "FAIL", expect, res
    finally:
        shutil.rmtree(d, ignore_errors=True)


ALL = ["C01", "C02", "C03", "C04", "C05", "C07", "C08", "C09", "C10", "C11", "C12", "C13", "C14", "C15", "C16", "C17", "C18", "C19", "C20"]


def global_variant(kind):
    """whole-tree behaviour-preserving rewrites: 'unparse' (formatting / comments / line numbers), 'rename' (+ every local variable
    renamed), 'retvar' (return E -> _r = E; return _r), 'ifswap' (if/else swapped under a negated test), 'hoist' (call arguments
    hoisted into temporaries), 'marker' (a no-op statement at the start of every function and loop body), 'annassign' (x = E -> x: object = E)"""
    if kind in ("unparse", "rename"):
        r = subprocess.run([os.path.join(VERIF, "tools", "variant_unparse.py")] + (["rename"] if kind == "rename" else []), capture_output=True, text=True)
    else:
        r = subprocess.run([os.path.join(VERIF, "tools", "variant_ast.py"), kind], capture_output=True, text=True)
    d = r.stdout.strip().splitlines()[-1]
    try:
        res = []
        ok = True

        def chk(pid):
            env = dict(os.environ, VERIF_REPO=d, VERIF_NO_EVIDENCE="1")
            rr = subprocess.run([os.path.join(VERIF, "check"), pid], env=env, capture_output=True, text=True)
            viol = re.findall(r"^\s+violated (\S+)", rr.stdout, re.M)
            inc = re.findall(r"^ANALYSIS-ERROR property=\S+ (\S+)", rr.stdout, re.M)
            return pid, rr.returncode, viol[:4], inc[:3]
        with cf.ThreadPoolExecutor(8) as ex:
            for t in ex.map(chk, ALL):
                res.append(t)
                ok = ok and t[1] == 0
        return f"global_{kind}", "OK" if ok else "FAIL", SILENT, res
    finally:
        shutil.rmtree(d, ignore_errors=True)


def main():
    args = sys.argv[1:]
    jobs = 16
    if args[:1] == ["-j"]:
        jobs = int(args[1])
        args = args[2:]
    entries = [e for e in CATALOGUE if not args or any(a in e[0] for a in args)]
    bad = 0
    skipped = 0
    with cf.ThreadPoolExecutor(jobs) as ex:
        for name, status, info, res in ex.map(one, entries):
            if status == "SKIP":
                skipped += 1
                print(f"SKIP {name}: {info}")
            elif status == "OK":
                print(f"ok   {name} [{info}] " + " ".join(f"{p}={rc}" for p, rc, _, _ in res))
            else:
                bad += 1
                print(f"FAIL {name} [{info}]")
                for p, rc, viol, inc in res:
                    print(f"       {p}: exit={rc} violated={viol} inconclusive={inc}")
    for kind in ("unparse", "rename", "retvar", "ifswap", "hoist", "marker", "annassign", "decomp", "kwargs"):
        if args and not any(a in "global_" + kind for a in args):
            continue
        name, status, info, res = global_variant(kind)
        if status == "OK":
            print(f"ok   {name} [{info}] all {len(res)} checks exit 0")
        else:
            bad += 1
            print(f"FAIL {name} [{info}]")
            for p, rc, viol, inc in res:
                if rc != 0:
                    print(f"       {p}: exit={rc} violated={viol} inconclusive={inc}")
    print(f"selftest: {len(entries)} entries, {bad} failed, {skipped} skipped")
    return 1 if bad else 0


if __name__ == "__main__":
    sys.exit(main())
