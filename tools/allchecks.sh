#!/bin/bash
# dev helper: run every claimed check on the current /repo tree in parallel (no evidence rewrite), print "Cxx=exit"
cd "$(dirname "$0")/.."
out=$(mktemp -d)
for p in C01 C02 C03 C04 C05 C07 C08 C09 C10 C11 C12 C13 C14 C15 C16 C17 C18 C19 C20; do
  ( VERIF_NO_EVIDENCE=1 ./check $p "$@" > $out/$p.log 2>&1; echo "$p=$?" > $out/$p.rc ) &
done
wait
cat $out/*.rc | tr '\n' ' '; echo
grep -l "VIOLATION\|ANALYSIS-ERROR" $out/*.log 2>/dev/null | while read f; do echo "== $f"; grep "VIOLATION\|ANALYSIS-ERROR" $f | head -5; done
rm -rf $out
