#!/bin/sh
# dev helper: run ALL checks against every benign (behaviour-preserving) patch under $1 (default /tmp/benout); anything but exit 0 is listed
ROOT=${1:-/tmp/benout}
ALL=C01,C02,C03,C04,C05,C07,C08,C09,C10,C11,C12,C13,C14,C15,C16,C17,C18,C19,C20
for d in $(ls -d $ROOT/*/[0-9]*/ 2>/dev/null); do
  [ -f $d/patch.diff ] || continue
  echo "$d"
done | xargs -P 6 -I{} sh -c 'r=$(/verif/tools/mut.py '$ALL' --patch {}/patch.diff 2>&1 | grep -- "^--- " | grep -v "exit=0" | tr "\n" " "); echo "{} ${r:-all-exit-0}"' | sort
