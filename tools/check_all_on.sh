#!/bin/bash
# dev helper: run all 18 checks on the tree in $1 (parallel), print only non-passing obligations
D=$1
ALL="C01 C02 C03 C04 C05 C07 C08 C09 C10 C11 C12 C13 C14 C15 C16 C17 C18 C19 C20"
T=$(mktemp -d)
for p in $ALL; do echo $p; done | xargs -P 8 -I{} sh -c "VERIF_REPO=$D VERIF_NO_EVIDENCE=1 /verif/check {} > $T/{}.txt 2>&1; echo \$? > $T/{}.rc"
for p in $ALL; do rc=$(cat $T/$p.rc); if [ "$rc" != "0" ]; then echo "--- $p exit=$rc"; grep "violated\|ANALYSIS-ERROR" $T/$p.txt | cut -c1-${2:-240} | head -${3:-5}; fi; done
rm -rf $T
