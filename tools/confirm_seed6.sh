#!/bin/bash
# usage: confirm_seed.sh <Cxx> <k> [full|rel]   -> /tmp/cf6/<Cxx>_<k>.json ; scratch worktree removed afterwards
P=$1; K=$2; MODE=${3:-full}
SRC=/tmp/mutout6/$P/$K
WT=/tmp/cf6/wt_${P}_$K
OUT=/tmp/cf6/${P}_$K
rm -rf $WT; git -C /repo worktree prune
git -C /repo worktree add -q --detach $WT HEAD || exit 9
cd $WT
res_apply=ok
git apply $SRC/patch.diff 2>$OUT.apply.err || { git apply --3way $SRC/patch.diff 2>>$OUT.apply.err || res_apply=FAILED; }
demo_with=NA; demo_without=NA; tests=NA
sed "s#/tmp/mut6/$P#$WT#g" $SRC/demo.py > $OUT.demo.py   # demos may assert the sub-agent's own worktree path
if [ $res_apply = ok ]; then
  timeout 1800 /venv/bin/python $OUT.demo.py > $OUT.demo_with.log 2>&1; demo_with=$?
  # the pinned suite in four parallel shards (same tests, same options; junit files merged below)
  PY="/venv/bin/python -m pytest -q -p no:cacheprovider --timeout=3000 --continue-on-collection-errors"
  Q=tests/test_transitions.py::test_quaternion_grid_assignments
  ( timeout 3000 $PY $Q --junitxml=$OUT.junit1.xml > $OUT.tests1.log 2>&1 ) &
  ( timeout 3000 $PY tests/test_rotobj.py --junitxml=$OUT.junit2.xml > $OUT.tests2.log 2>&1 ) &
  ( timeout 3000 $PY tests/test_voronoi.py --junitxml=$OUT.junit3.xml > $OUT.tests3.log 2>&1 ) &
  ( timeout 3000 $PY --deselect $Q --ignore=tests/test_rotobj.py --ignore=tests/test_voronoi.py --junitxml=$OUT.junit4.xml > $OUT.tests4.log 2>&1 ) &
  wait
  for i in 1 2 3 4; do tail -1 $OUT.tests$i.log; done | tr '\n' ';' > $OUT.tests.log; echo >> $OUT.tests.log
  tests=$(tail -1 $OUT.tests.log)
  git diff > $OUT.applied.diff
  git checkout -q -- . ; git clean -fdq
  timeout 1800 /venv/bin/python $OUT.demo.py > $OUT.demo_without.log 2>&1; demo_without=$?
fi
cd /; git -C /repo worktree remove --force $WT
/venv/bin/python - <<PY
import json, xml.etree.ElementTree as ET, os
b=json.load(open('/root/.vp/BASELINE.json'))
missing=None
try:
    res={}
    import itertools
    for tc in itertools.chain(*[ET.parse('$OUT.junit%d.xml'%i).iter('testcase') for i in (1,2,3,4)]):
        name=f"{tc.get('classname')}::{tc.get('name')}"; st='pass'
        for ch in tc:
            if ch.tag in ('failure','error'): st='fail'
            if ch.tag=='skipped': st='skip'
        res[name]=st
    missing=[n for n in b['stable_pass'] if res.get(n)!='pass']
except Exception as e:
    missing=['<no junit: %s>'%e]
json.dump({"property":"$P","k":"$K","apply":"$res_apply","demo_with_patch_exit":"$demo_with","demo_without_patch_exit":"$demo_without",
  "tests_summary":"""$tests""","stable_tests_not_passing":missing,"mode":"$MODE"}, open('$OUT.json','w'), indent=1)
print(open('$OUT.json').read())
PY
