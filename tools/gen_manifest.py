#!/venv/bin/python
"""regenerates /verif/MANIFEST.json from the table below (claimed checks must have sa/props/<id>.py)"""
import json, os

HERE = os.path.dirname(os.path.dirname(os.path.abspath(__file__)))

NOTE = ("Trusted base: the Python-subset semantics and the numpy/scipy transfer table of the checker's abstract "
        "interpreter (sa/interp.py, sa/transfer.py), CPython set/dict iteration semantics, assert statements enabled, "
        "floats treated as reals. The check reads /repo's current sources only (ast); it never imports or runs molgri.")

CHECKS = {
    "C01": ("abstract interpretation of SQRA.get_rate_matrix over an exact monomial/role/coefficient domain; result compared with the property's formula",
            "Formula shape of Q decided for all n, patterns, energies, T, D on the current source (degrees, roles, exponent sign, coefficient, cap, entry alignment, diagonal = -row sum). Rounding/overflow are not decided.", "6 C01"),
    "C12": ("abstract interpretation of the window generators and MSM.get_one_tau_transition_matrix + linear arithmetic on index/bound expressions, mirrored-emission and must-pass-through rules",
            "Window index set, range tightness, step per mode, NaN skipping, mirrored counting and row normalisation decided for symbolic L and tau>=1 in both modes.", "6 C12"),
}

CHECKS["C17"] = ("exhaustive finite abstract evaluation of the name parser's decision code (token-count classes x role x 'zero' flag x algorithm token x N-class with symbolic N>=2), nullness/ordering (OPTCMP) and factory-exhaustiveness (DISPATCH) rules",
    "The whole decision table of GridNameParser is enumerated abstractly on the current source (exhaustive: true) and compared with the rules of the property, including exception kind, idempotence of the standard name and factory coverage.", "6 C17")

CHECKS["C13"] = ("order-kind dataflow (ASC/DESC/UNORDERED) over the lumping functions, version-stamp (PAIR) abstract interpretation of SQRA.cut_and_merge over all four limit combinations, alias/ownership rule for inputs, abstract interpretation of sqra_normalize (dense and sparse sibling), workflow wiring",
    "Structural clauses of exact lumping decided for all matrices and operation histories: selectors ascending, index list filtered with the same set in the same order, descending pops, smallest-member representative, groups re-sorted, inputs not mutated, (matrix,list) pair from one version, diagonal = -row sum in both branches. Numerical equality of lumped sums is delegated to scipy and not decided.", "6 C13")

CHECKS["C16"] = ("order-kind dataflow per dispatch branch, CFG dominator (must-pass-through) check, abstract interpretation of the parser branches and of get_increments/get_between_radii (symbolic n>=2 and n=1) with exact piecewise sequences",
    "Ascending order on every format branch, non-negativity check before conversion and hash, x10 exactly once, hash provenance, increments and shell-boundary formulas (incl. single radius) decided on the current source. numpy's linspace/arange arithmetic and literal_eval are trusted.", "6 C16")

CHECKS["C19"] = ("exception-escape analysis by abstract interpretation of the real FullGrid constructors and getters over the exhaustive size box (attribute definedness per selected receiver class, exact sequence lengths, argument binding, result shapes)",
    "For every (n_b, n_o, n_t) of the box and both position modes the constructors and five getters are interpreted abstractly on the current source (sizes are the only concrete data); AttributeError / IndexError / TypeError escapes and wrong result shapes are reported with the call path and the sizes. Errors inside scipy/qhull and value-dependent assertions are not decided.", "6 C19")

CHECKS["C05"] = ("abstract interpretation of the position-grid kernels over an abstractly constructed object graph with symbolic n_t>=2, n_o>=4: exact polynomial values piecewise in the shell index compared with the property's formulas; layout (LAYOUT), symmetric emission (MIRROR), dimension (DEG) rules",
    "Every volume, radial/lateral border and radial/lateral distance of the default position grid is derived symbolically (exact polynomials in the radii and opaque unit-sphere quantities) and compared with the formulas of the property on the first, inner and last shell; shell-major layout, +-n_o diagonals, block placement and per-shell masks are decided by polynomial identities. Universal in n_t, n_o, radii. The unit-sphere quantities themselves belong to C03.", "6 C05")

CHECKS["C09"] = ("abstract interpretation of the full-grid array builder, len and index helpers with symbolic sizes (row-index polynomial of every store, mixed-radix digits of the position index), order-kind/structural rule for the first-occurrence de-duplication, column-split agreement across writer and readers",
    "Row layout n = pos*n_b + rot with pos = t*n_o + o, the stored position/quaternion values, len, n mod n_b and n div n_b are derived as exact polynomials for all sizes; decomposition order, column splits and the consumer's unpacking order are decided structurally. Rounding collisions at 8 decimals are not decided.", "6 C09")

CHECKS["C02"] = ("abstract interpretation of FullGrid._get_N_N / get_total_volumes over the abstract grid object (symbolic sizes and factor): aligned emission lists with row/column index polynomials (LAYOUT/MIRROR), factor power per family (DEG), periodic block list identity, plus FOLD/TRUTH rules on the antipodal fold of the rotation block",
    "Composition of the full-grid adjacency/border/distance matrices and of the 6D volumes from position and rotation geometry is derived symbolically for all sizes (n_b>=4 and n_b=1) and compared with the property: index maps, stored values, factor powers, block placement, shapes, cell order; the rotation block must be the folded half-sphere matrix whose antipode map is total. Positivity/finiteness and the value-dependent `if el:` filter are not decided.", "6 C02")

CHECKS["C03"] = ("abstract interpretation of AbstractVoronoi._calculate_N_N_array for symbolic N (mirrored emission, guard independent of the property, threshold dim-1, no additional emission condition incl. `continue` paths), of the pair functions and of the cell-model dispatch / exact-area default",
    "Structural clauses only: symmetry, empty diagonal and one common pattern of the three pairwise matrices by construction, adjacency threshold, which function computes distance and border from which arguments, N>=4 -> exact model, default areas from SphericalVoronoi.calculate_areas. That scipy's regions are the true tessellation and all arc/area values are not decided.", "6 C03")
CHECKS["C04"] = ("FOLD/TRUTH rules on the antipodal fold (index array in Boolean context, value-copying fold, one index list), abstract interpretation of the full-sphere pairwise matrices (4D), interval/RANGE rule on distance_between_quaternions, LAYOUT of the double cover, forwarding resolution of the public getters",
    "Structural clauses: antipode map total incl. index 0, value-copying fold, single ascending index list, symmetric full-sphere matrices on one pattern, threshold 3 shared vertices, quaternion distance in [0,pi/2] (switch exactly pi/2), double cover [G;-G], getters reach the folded implementation. Which cells share a 2-face and the face areas are not decided.", "6 C04")
CHECKS["C15"] = ("abstract interpretation of the volume estimators (equal-share formulas, hull.area/2), selector/axis role check of the helper-point assignment, polarity agreement of the hemisphere filters, selection of half volumes at the upper indices, model dispatch threshold",
    "Structural clauses: pi^2/N and 4*pi/N for N<4 with threshold 4, factor 1/2 on the hull surface measure, nearest-centre assignment along the right axis, same hemisphere predicate for helper points and centres, half volumes = first N of the 2N double-cover volumes. The 12%/30% tolerance bands are numerical and not decided.", "6 C15")

CHECKS["C08"] = ("reseed-dominance analysis (call-graph fixpoint of drawing functions + CFG dominators), getter-purity classification of attribute stores (IDEMP), who-may-write / prefix rules on the polytope index (OWN/ORD), hash-container iteration and mutable-default scans",
    "Structural clauses: every random draw on grid/geometry paths is dominated by a constant reseed (independence of history and of the global generator state), getters are pure/init-once/idempotent, permanent indices are written once and get_nodes(N) is a prefix, caches are validated by node count, no hash-randomised order reaches results. Bit-identity of scipy/qhull across processes is trusted, not decided.", "6 C08")
CHECKS["C18"] = ("who-may-write (OWN) and ordering (ORD) rules over polytopes.py, reseed dominance of the index shuffle, constant-resolved tolerance rule on the edge-length test (FLOATTOL), unfiltered second-neighbour walk (CANDIDATES)",
    "Index permanence and level ordering for all levels and histories, projection = normalised node at the only node-adding site, prefix property of get_nodes, index-ordered half-hypercube selection, deterministic shuffle. Equality with the ideal lattice, negation closure and antipodal uniqueness are numerical and not decided.", "6 C18")

CHECKS["C10"] = ("syntax-directed dataflow over the frame loop (per-iteration reset dominance), inversion-parity count on the rotation chain, sibling agreement of selection strings and quaternion constructors, ordering of frame collection, writer wiring",
    "Structural clauses: every in-place mutation of the moving molecule is preceded in its iteration by a restore from a loop-invariant snapshot; the rotation matrix is R(q) of row[3:] with even inversion parity and the translation +row[:3]; one frame per row in row order; atom order molecule 1 then 2; siblings agree. MDAnalysis' rigid-body arithmetic is trusted.", "6 C10")

CHECKS["C11"] = ("abstract interpretation of AssignmentTool's composition and selection kernels with symbolic sizes (index polynomial, outer-bound linear form, NaN path conditions), selector polarity / axis-role rule (SELECT)",
    "Index composition (t*n_o+o)*n_b+b, nearest-radius selection, outer bound = 3/2 r_T - 1/2 r_{T-1} with NaN exactly beyond it unless outliers are included, nearest direction and nearest rotation selected by argmin along the grid axis. Recovery of the molecule's rotation from principal axes for continuous inputs is numerical and not decided.", "6 C11")

CHECKS["C20"] = ("writer/reader pairing analysis (PAIRIO) over molgri/io.py and the run_grid Snakefile rule (front end parses the rule into ASTs), constant/keyword check of the xvg reader against the property's header grammar",
    "Structural clauses: each artefact is saved with the matching saver from the direct getter result and loaded with the matching loader; xvg reader constants (skiprows=13, comment '@', no header row, legends s0..s9 in order, names passed on, single column by name, csv index_col=0). Value-exactness of numpy/scipy/pandas serialisation is trusted.", "6 C20")

CHECKS["C14"] = ("label-flow analysis (FLOW) across getters, saved files, Snakefile rule outputs/inputs (rules.X.output.Y resolved by the front end), loaders and SQRA keyword arguments; config-key-to-grid-role tracing at every FullGrid construction; transpose parity and order/pairing rules on DecompositionTool; inherited FOLD/TRUTH rules, inherited SQRA kernel obligations (C01, coo form) and position-grid symmetry obligations (C05)",
    "Wiring (borders->S, distances->h, volumes->V; config keys -> grid roles), one assembly routine for S and h, left eigenvectors via one transpose, descending sort applied to eigenvalues and eigenvector columns alike, decomposition rule wiring, folded rotation block (F1). ARPACK convergence/accuracy is not decided.", "6 C14")

CHECKS["C07"] = ("structural rules over the grid generators: requested row count per source, canonical-half selection and [:N] prefix with availability error (shared OWN/ORD rules), symbolic derivation of the double cover [G; -G], exact-negation and one-row-per-row rules on the hemisphere normalisation, constants of the one-point grids",
    "Structural clauses only: every generator requests exactly N rows; rotation rows are selected from / normalised to the canonical half with one row out per row in; the double cover is the N rows followed by their exact negatives in the same order; the N-point polytope rotation grid is the index-ordered prefix with an explicit error when fewer rows exist; one-point grids are the z direction and the identity. Pairwise distinctness, minimum separation and unit norm of computed coordinates are numerical and not decided.", "12.7")

NOT_APPLICABLE = {
    "C06": "Cartesian Voronoi cell geometry is produced by qhull and floating-point predicates (polygon vertex ordering, F2); no static abstract domain in reach separates the failing coordinate configurations; the one structural clause is too thin to claim the property (DESIGN.md section 6, C06).",
}


def main():
    props = [json.loads(l) for l in open(os.path.join(HERE, "properties.jsonl"))]
    checks = []
    na = []
    for p in props:
        pid = p["id"]
        if pid in CHECKS and os.path.exists(os.path.join(HERE, "sa", "props", pid + ".py")):
            tech, text, ref = CHECKS[pid]
            checks.append({
                "property_id": pid,
                "quick_cmd": f"./check {pid} --tier quick",
                "thorough_cmd": f"./check {pid} --tier thorough",
                "evidence_file": f"/verif/evidence/{pid}.json",
                "replay_cmd_template": f"./check {pid} --replay {{path}}",
                "engine": "sa",
                "level_claimed": {"category": "other", "text": "Static analysis (no execution). " + text +
                                  " Exit 1 only with an abstract witness naming file/function/construct; constructs outside "
                                  "the modelled vocabulary give exit 2 (ANALYSIS-ERROR), never a violation.",
                                  "design_ref": f"DESIGN.md section {ref}"},
                "level_note": NOTE,
                "technique": "static analysis: " + tech + "; plus the common memo-soundness (CACHE) and may-alias / in-place-mutation "
                             "(ALIAS) analyses over the package; thorough tier re-runs the analysis on catalogued single-edit scratch "
                             "variants of the current tree (must-fire / must-stay-silent sentinels) and on larger size contexts",
            })
        elif pid in NOT_APPLICABLE:
            na.append({"property_id": pid, "reason": NOT_APPLICABLE[pid]})
        else:
            na.append({"property_id": pid, "reason": "check not built yet (build in progress; see DESIGN.md section 11)"})
    m = {
        "version": 1,
        "setup_cmd": "./check --selfcheck",
        "hooks": {"guard": "MOLGRI_VERIF", "enable": "none needed: static analysis reads /repo's sources; no hook commits exist",
                  "baseline_off_cmd": "cd /repo && /venv/bin/python -m pytest -ra -q -p no:cacheprovider --timeout=900 --continue-on-collection-errors",
                  "source_commits": [], "add_only": True},
        "engines": [{"name": "sa", "path": "/verif/sa", "serves_properties": [c["property_id"] for c in checks],
                     "kind_free_text": "repository-specific static analyser: ast repository model, Snakefile front end, CFG/dominators, kernel abstract interpreter (exact polynomial / layout / list-skeleton domains), rule modules per property"}],
        "checks": checks,
        "not_applicable": na,
        "notes": "All checks are static analyses of /repo's current working tree (python ast); see DESIGN.md. known_findings.json lists repaired defects (fix: commits).",
    }
    json.dump(m, open(os.path.join(HERE, "MANIFEST.json"), "w"), indent=1)
    print(f"{len(checks)} checks, {len(na)} not applicable")


main()
