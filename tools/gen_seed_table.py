#!/venv/bin/python
"""writes /verif/seeded/INDEX.md (one row per kept seeded change) from the meta.json files"""
import glob, json, os
rows = []
for f in sorted(glob.glob("/verif/seeded/*/meta.json")):
    m = json.load(open(f))
    det = m.get("detected_by", {})
    own = m["property"]
    own_rules = ", ".join(det.get(own, [])[:3]) or "-"
    others = ", ".join(p for p in sorted(det) if p != own) or "-"
    rows.append((m["seed"], m["summary"].replace("|", "/")[:150], ", ".join(m.get("files_touched", []))[:80],
                 "exit 1" if m.get("own_property_check_exit") == 1 else f"exit {m.get('own_property_check_exit')}", own_rules, others))
out = ["# Seeded changes kept under /verif/seeded", "",
       "Each directory holds `patch.diff` (apply with `git -C /repo apply`, undo with `git -C /repo checkout -- .`), `demo.py` (exits 0 on the "
       "unchanged tree, 1 with the patch), `notes.md` (the sub-agent's account) and `meta.json` (what was run to confirm it; which checks detect it).",
       "Every seed listed here was confirmed in a scratch worktree: the patch applies, the demonstration fails with it and passes without it, "
       "and the whole pinned test suite still passes every baseline-stable test.", "",
       "| seed | change | files | own check | obligations that fire (own property) | other checks that fire |", "|---|---|---|---|---|---|"]
for r in rows:
    out.append("| " + " | ".join(r) + " |")
n = len(rows)
hit = sum(1 for r in rows if r[3] == "exit 1")
out += ["", f"{hit} of {n} kept seeds are detected (exit 1 with a VIOLATION line) by the check of the property they break."]
open("/verif/seeded/INDEX.md", "w").write("\n".join(out) + "\n")
print("\n".join(out[-3:]))
