#!/venv/bin/python
"""dev helper: copy every CONFIRMED seed (/tmp/cf/<P>_<k>.json: patch applies, demo exits 1 with / 0 without the patch, every
baseline-stable test still passes) into /verif/seeded/<P>-<k>/ with meta.json, and record which checks detect it."""
import concurrent.futures as cf
import glob, json, os, re, shutil, subprocess, sys

VERIF = "/verif"
WAVE2 = "--wave2" in sys.argv
WAVE3 = "--wave3" in sys.argv
WAVE4 = "--wave4" in sys.argv
WAVE5 = "--wave5" in sys.argv
WAVE6 = "--wave6" in sys.argv
CFDIR = "/tmp/cf6" if WAVE6 else "/tmp/cf5" if WAVE5 else "/tmp/cf4" if WAVE4 else "/tmp/cf3" if WAVE3 else "/tmp/cf2" if WAVE2 else "/tmp/cf"
SRCROOT = "/tmp/mutout6" if WAVE6 else "/tmp/mutout5" if WAVE5 else "/tmp/mutout4" if WAVE4 else "/tmp/mutout3" if WAVE3 else "/tmp/mutout2" if WAVE2 else "/tmp/mutout"
KOFF = 0 if WAVE6 else 12 if WAVE5 else 9 if WAVE4 else 6 if WAVE3 else 3 if WAVE2 else 0
ALL = ["C01", "C02", "C03", "C04", "C05", "C07", "C08", "C09", "C10", "C11", "C12", "C13", "C14", "C15", "C16", "C17", "C18", "C19", "C20"]


def detect(patch):
    r = subprocess.run([os.path.join(VERIF, "tools", "mut.py"), ",".join(ALL), "--patch", patch], capture_output=True, text=True)
    out = {}
    for m in re.finditer(r"^--- (C\d\d) exit=(\d)", r.stdout, re.M):
        out[m.group(1)] = int(m.group(2))
    viol = {}
    cur = None
    for line in r.stdout.splitlines():
        m = re.match(r"\[(C\d\d)\]", line)
        if m:
            cur = m.group(1)
        m = re.match(r"\s+violated (\S+) \[(\w+)\]", line)
        if m and cur:
            viol.setdefault(cur, [])
            if m.group(1) not in viol[cur]:
                viol[cur].append(m.group(1))
    return out, viol


def one(jf):
    j = json.load(open(jf))
    P, k = j["property"], j["k"]
    src = f"{SRCROOT}/{P}/{k}"
    k = str(int(k) + KOFF)
    ok = j.get("apply") == "ok" and j.get("demo_with_patch_exit") == "1" and j.get("demo_without_patch_exit") == "0" and \
        j.get("stable_tests_not_passing") == []
    if not ok:
        return P, k, False, j
    dst = os.path.join(VERIF, "seeded", f"{P}-{k}")
    os.makedirs(dst, exist_ok=True)
    for f in ("patch.diff", "demo.py", "notes.md"):
        if os.path.exists(os.path.join(src, f)):
            shutil.copy(os.path.join(src, f), os.path.join(dst, f))
    exits, viol = detect(os.path.join(dst, "patch.diff"))
    notes = open(os.path.join(dst, "notes.md")).read() if os.path.exists(os.path.join(dst, "notes.md")) else ""
    title = next((l.strip("# ").strip() for l in notes.splitlines() if l.strip()), "")
    needs = ""
    m = re.search(r"(?is)(what it needs[^\n]*|needs[^\n]*manifest[^\n]*|## needs[^\n]*)\n(.*?)(\n#|\Z)", notes)
    if m:
        needs = " ".join(m.group(2).split())[:900]
    meta = {
        "property": P,
        "seed": f"{P}-{k}",
        "round": 6 if WAVE6 else 5 if WAVE5 else 4 if WAVE4 else 3 if WAVE3 else 2 if WAVE2 else 1,
        "summary": title[:300],
        "needs_to_manifest": needs or "see notes.md",
        "what_was_run": {
            "worktree": "git -C /repo worktree add --detach <scratch> HEAD; git apply patch.diff (removed afterwards)",
            "demo_with_patch": f"/venv/bin/python demo.py -> exit {j['demo_with_patch_exit']}",
            "demo_without_patch": f"/venv/bin/python demo.py -> exit {j['demo_without_patch_exit']}",
            "tests": ("/venv/bin/python -m pytest -q -p no:cacheprovider (whole pinned suite, run as four parallel shards by tools/confirm_seed6.sh) with the patch applied"
                      if WAVE6 else "/venv/bin/python -m pytest -q -p no:cacheprovider --timeout=900 (whole pinned suite) with the patch applied"),
            "tests_summary": j.get("tests_summary"),
            "baseline_stable_tests_not_passing": j.get("stable_tests_not_passing"),
        },
        "files_touched": sorted(set(re.findall(r"^\+\+\+ b/(\S+)", open(os.path.join(dst, "patch.diff")).read(), re.M))),
        "detected_by": {p: viol.get(p, []) for p, e in sorted(exits.items()) if e == 1},
        "own_property_check_exit": exits.get(P),
        "inconclusive_in": [p for p, e in sorted(exits.items()) if e == 2],
    }
    json.dump(meta, open(os.path.join(dst, "meta.json"), "w"), indent=1)
    return P, k, True, meta


def main():
    files = sorted(glob.glob(CFDIR + "/C*_*.json"))
    only = [a for a in sys.argv[1:] if not a.startswith("--")]
    if only:
        files = [f for f in files if any(o in f for o in only)]
    with cf.ThreadPoolExecutor(4) as ex:
        for P, k, ok, info in ex.map(one, files):
            if ok:
                print(f"{P}-{k}: confirmed; own check exit={info['own_property_check_exit']}; detected by {sorted(info['detected_by'])}")
            else:
                print(f"{P}-{k}: NOT confirmed: apply={info.get('apply')} demo_with={info.get('demo_with_patch_exit')} "
                      f"demo_without={info.get('demo_without_patch_exit')} tests={info.get('tests_summary')} missing={info.get('stable_tests_not_passing')}")


main()
