#!/venv/bin/python
"""dev helper: run a check against a scratch copy of /repo with one textual edit (or a patch file) applied.
usage: tools/mut.py Cxx relpath 'old' 'new' [relpath old new ...]   |   tools/mut.py Cxx --patch file.diff"""
import os, shutil, subprocess, sys, tempfile

def make_copy(src="/repo"):
    d = tempfile.mkdtemp(prefix="verif_mut_")
    for sub in ("molgri", "workflow"):
        shutil.copytree(os.path.join(src, sub), os.path.join(d, sub), ignore=shutil.ignore_patterns("__pycache__", "*.pyc"))
    return d

def main():
    pids = sys.argv[1].split(",")
    d = make_copy()
    try:
        if sys.argv[2] == "--patch":
            r = subprocess.run(["git", "apply", "--unsafe-paths", "--directory", d, os.path.abspath(sys.argv[3])], cwd=d, capture_output=True, text=True)
            if r.returncode != 0:
                r = subprocess.run(["patch", "-p1", "-d", d, "-i", os.path.abspath(sys.argv[3])], capture_output=True, text=True)
                if r.returncode != 0:
                    print("PATCH FAILED", r.stdout, r.stderr); return 3
        else:
            a = sys.argv[2:]
            for k in range(0, len(a), 3):
                p = os.path.join(d, a[k]); s = open(p).read()
                if s.count(a[k+1]) != 1:
                    print(f"EDIT FAILED: {a[k+1]!r} occurs {s.count(a[k+1])} times in {a[k]}"); return 3
                open(p, "w").write(s.replace(a[k+1], a[k+2]))
        rc = 0
        for pid in pids:
            env = dict(os.environ, VERIF_REPO=d, VERIF_NO_EVIDENCE="1")
            r = subprocess.run([os.path.join(os.path.dirname(os.path.dirname(os.path.abspath(__file__))), "check"), pid], env=env, capture_output=True, text=True)
            out = r.stdout.replace(d, "<copy>")
            print(out[-3000:], end="")
            if r.stderr.strip(): print("STDERR:", r.stderr[-800:])
            print(f"--- {pid} exit={r.returncode}")
            rc = max(rc, r.returncode)
        return rc
    finally:
        shutil.rmtree(d, ignore_errors=True)
sys.exit(main())
