#!/bin/bash
# usage: redo_demo.sh <Cxx> <k> : re-run only the demonstration (with/without the patch) with the agent's worktree path rewritten
P=$1; K=$2
SRC=/tmp/mutout/$P/$K
WT=/tmp/cf/wtd_${P}_$K
OUT=/tmp/cf/${P}_$K
rm -rf $WT; git -C /repo worktree prune
git -C /repo worktree add -q --detach $WT HEAD || exit 9
sed "s#/tmp/mut/$P#$WT#g" $SRC/demo.py > $WT/_demo_verif.py
cd $WT
git apply $SRC/patch.diff || exit 8
timeout 1800 /venv/bin/python _demo_verif.py > $OUT.demo_with.log 2>&1; w=$?
git checkout -q -- . 
timeout 1800 /venv/bin/python _demo_verif.py > $OUT.demo_without.log 2>&1; wo=$?
cd /; git -C /repo worktree remove --force $WT
/venv/bin/python - <<PY
import json
j=json.load(open('$OUT.json')); j['demo_with_patch_exit']='$w'; j['demo_without_patch_exit']='$wo'; j['demo_note']='demo re-run with the sub-agent worktree path rewritten to the confirmation worktree'
json.dump(j, open('$OUT.json','w'), indent=1); print('$P $K with=$w without=$wo')
PY
