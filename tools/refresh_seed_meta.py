#!/venv/bin/python
"""dev helper: re-run all 19 checks against every kept seed and rewrite the detection fields of its meta.json (detected_by,
own_property_check_exit, inconclusive_in).  usage: tools/refresh_seed_meta.py [-j N] [substr ...]"""
import concurrent.futures as cf
import glob, json, os, re, subprocess, sys

VERIF = os.path.dirname(os.path.dirname(os.path.abspath(__file__)))
ALL = ["C01", "C02", "C03", "C04", "C05", "C07", "C08", "C09", "C10", "C11", "C12", "C13", "C14", "C15", "C16", "C17", "C18", "C19", "C20"]


def detect(patch):
    r = subprocess.run([os.path.join(VERIF, "tools", "mut.py"), ",".join(ALL), "--patch", patch], capture_output=True, text=True)
    out, viol, cur = {}, {}, None
    for m in re.finditer(r"^--- (C\d\d) exit=(\d)", r.stdout, re.M):
        out[m.group(1)] = int(m.group(2))
    for line in r.stdout.splitlines():
        m = re.match(r"\[(C\d\d)\]", line)
        if m:
            cur = m.group(1)
        m = re.match(r"\s+violated (\S+) \[(\w+)\]", line)
        if m and cur:
            viol.setdefault(cur, [])
            if m.group(1) not in viol[cur]:
                viol[cur].append(m.group(1))
    return out, viol


def one(d):
    mf = os.path.join(d, "meta.json")
    meta = json.load(open(mf))
    exits, viol = detect(os.path.join(d, "patch.diff"))
    if len(exits) != len(ALL):
        return d, None
    meta["detected_by"] = {p: viol.get(p, []) for p, e in sorted(exits.items()) if e == 1}
    meta["own_property_check_exit"] = exits.get(meta["property"])
    meta["inconclusive_in"] = [p for p, e in sorted(exits.items()) if e == 2]
    json.dump(meta, open(mf, "w"), indent=1)
    return d, meta["own_property_check_exit"]


def main():
    args = sys.argv[1:]
    j = 8
    if "-j" in args:
        j = int(args[args.index("-j") + 1]); del args[args.index("-j"):args.index("-j") + 2]
    dirs = sorted(glob.glob(os.path.join(VERIF, "seeded", "C*-*")))
    if args:
        dirs = [d for d in dirs if any(a in d for a in args)]
    with cf.ThreadPoolExecutor(j) as ex:
        for d, e in ex.map(one, dirs):
            print(os.path.basename(d), "own exit", e)


main()
