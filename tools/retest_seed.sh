#!/bin/bash
# usage: retest_seed.sh <Cxx> <k> [srcroot] : re-run, with the patch applied, only the baseline-stable tests that did not pass in the
# full-suite run (typically pytest-timeout under machine overload) and update /tmp/cf/<Cxx>_<k>.json
P=$1; K=$2; SRCROOT=${3:-/tmp/mutout}
SRC=$SRCROOT/$P/$K
OUT=/tmp/cf/${P}_$K
WT=/tmp/cf/wtr_${P}_$K
TESTS=$(/venv/bin/python - <<PY
import json
j=json.load(open('$OUT.json'))
print(" ".join(t.replace("tests.", "tests/", 1).replace("::", ".py::", 1) if t.startswith("tests.") else t for t in j.get("stable_tests_not_passing", [])))
PY
)
[ -z "$TESTS" ] && { echo "$P $K nothing to retest"; exit 0; }
rm -rf $WT; git -C /repo worktree prune
git -C /repo worktree add -q --detach $WT HEAD || exit 9
cd $WT && git apply $SRC/patch.diff || exit 8
timeout 7200 /venv/bin/python -m pytest -q -p no:cacheprovider --timeout=3000 $TESTS --junitxml=$OUT.retest.xml > $OUT.retest.log 2>&1
cd /; git -C /repo worktree remove --force $WT
/venv/bin/python - <<PY
import json, xml.etree.ElementTree as ET
j=json.load(open('$OUT.json'))
res={}
for tc in ET.parse('$OUT.retest.xml').iter('testcase'):
    name=f"{tc.get('classname')}::{tc.get('name')}"; st='pass'
    for ch in tc:
        if ch.tag in ('failure','error'): st='fail'
        if ch.tag=='skipped': st='skip'
    res[name]=st
still=[t for t in j['stable_tests_not_passing'] if res.get(t)!='pass']
j['retested']={t: res.get(t) for t in j['stable_tests_not_passing']}
j['retest_note']='tests that hit the 900 s pytest-timeout in the overloaded full-suite run were re-run alone with the patch applied (timeout 3000 s)'
j['stable_tests_not_passing']=still
json.dump(j, open('$OUT.json','w'), indent=1)
print('$P $K retested', j['retested'], 'still failing:', still)
PY
