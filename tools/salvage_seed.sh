#!/bin/bash
# usage: salvage_seed.sh <Cxx> <k> : tests already ran (junit present); re-run only the demo with/without the patch and write the JSON
P=$1; K=$2; MUT=${3:-/tmp/mut}; SRCROOT=${4:-/tmp/mutout}
SRC=$SRCROOT/$P/$K
WT=/tmp/cf/wts_${P}_$K
OUT=/tmp/cf/${P}_$K
git -C /repo worktree remove --force /tmp/cf/wt_${P}_$K 2>/dev/null
rm -rf $WT; git -C /repo worktree prune
git -C /repo worktree add -q --detach $WT HEAD || exit 9
sed "s#$MUT/$P#$WT#g" $SRC/demo.py > $OUT.demo.py
cd $WT
res_apply=ok
git apply $SRC/patch.diff 2>$OUT.apply.err || res_apply=FAILED
timeout 1800 /venv/bin/python $OUT.demo.py > $OUT.demo_with.log 2>&1; w=$?
git checkout -q -- .
timeout 1800 /venv/bin/python $OUT.demo.py > $OUT.demo_without.log 2>&1; wo=$?
cd /; git -C /repo worktree remove --force $WT
tests=$(tail -1 $OUT.tests.log)
/venv/bin/python - <<PY
import json, xml.etree.ElementTree as ET
b=json.load(open('/root/.vp/BASELINE.json'))
try:
    t=ET.parse('$OUT.junit.xml'); res={}
    for tc in t.iter('testcase'):
        name=f"{tc.get('classname')}::{tc.get('name')}"; st='pass'
        for ch in tc:
            if ch.tag in ('failure','error'): st='fail'
            if ch.tag=='skipped': st='skip'
        res[name]=st
    missing=[n for n in b['stable_pass'] if res.get(n)!='pass']
except Exception as e:
    missing=['<no junit: %s>'%e]
json.dump({"property":"$P","k":"$K","apply":"$res_apply","demo_with_patch_exit":"$w","demo_without_patch_exit":"$wo",
  "tests_summary":"""$tests""","stable_tests_not_passing":missing,"mode":"full","demo_note":"demo re-run separately with the sub-agent worktree path rewritten"}, open('$OUT.json','w'), indent=1)
print("$P $K apply=$res_apply with=$w without=$wo missing=%d" % len(missing))
PY
