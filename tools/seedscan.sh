#!/bin/sh
# dev helper: run each property's own check against every seed patch under $1 (default /verif/seeded, layout <Cxx>/<k>/patch.diff or <Cxx>-<k>/patch.diff)
ROOT=${1:-/verif/seeded}
for d in $(ls -d $ROOT/*/*/ $ROOT/*-*/ 2>/dev/null); do
  [ -f $d/patch.diff ] || continue
  p=$(echo $d | grep -o 'C[0-9][0-9]' | head -1)
  echo "$d $p"
done | xargs -P 12 -L 1 sh -c 'r=$(/verif/tools/mut.py $1 --patch $0/patch.diff 2>&1 | grep -- "^--- " | tr "\n" " "); echo "$0 $r"' | sort
