#!/venv/bin/python
"""dev helper: whole-tree behaviour-preserving AST rewrites of molgri/**/*.py in a scratch copy; prints the directory.
modes:  retvar  : `return EXPR`  ->  `_ret = EXPR; return _ret`   (not in generators / lambdas)
        ifswap  : `if C: A else: B`  ->  `if not C: B else: A`      (only when an else branch exists and is not an elif chain)
        tmpcall : `f(g(x))` arguments that are calls are hoisted?  (not implemented)
"""
import ast, os, shutil, sys, tempfile

mode = sys.argv[1]

class RetVar(ast.NodeTransformer):
    def __init__(self): self.k = 0
    def visit_FunctionDef(self, node):
        self.generic_visit(node)
        if any(isinstance(n, (ast.Yield, ast.YieldFrom)) for n in ast.walk(node)):
            return node
        return node
    def _block(self, stmts):
        out = []
        for s in stmts:
            if isinstance(s, ast.Return) and s.value is not None and not isinstance(s.value, (ast.Name, ast.Constant)):
                self.k += 1
                nm = f"_ret{self.k}"
                out.append(ast.copy_location(ast.Assign(targets=[ast.Name(id=nm, ctx=ast.Store())], value=s.value), s))
                out.append(ast.copy_location(ast.Return(value=ast.Name(id=nm, ctx=ast.Load())), s))
            else:
                out.append(s)
        return out
    def generic_visit(self, node):
        super().generic_visit(node)
        for f in ("body", "orelse", "finalbody"):
            b = getattr(node, f, None)
            if isinstance(b, list) and b and isinstance(b[0], ast.stmt):
                setattr(node, f, self._block(b))
        return node

class IfSwap(ast.NodeTransformer):
    def visit_If(self, node):
        self.generic_visit(node)
        if node.orelse and not (len(node.orelse) == 1 and isinstance(node.orelse[0], ast.If)):
            node.test, node.body, node.orelse = ast.UnaryOp(op=ast.Not(), operand=node.test), node.orelse, node.body
        return node

class Hoist(ast.NodeTransformer):
    """x = f(a, g(b))  ->  _h1 = g(b); x = f(a, _h1)   for simple statements (Assign / Expr / Return) whose value is a call with a
    call argument preceded only by side-effect-free arguments; one hoist per statement"""
    def __init__(self): self.k = 0
    def _simple(self, e):
        return isinstance(e, (ast.Name, ast.Constant)) or (isinstance(e, ast.Attribute) and self._simple(e.value))
    def _block(self, stmts):
        out = []
        for s in stmts:
            v = s.value if isinstance(s, (ast.Assign, ast.Expr, ast.Return)) else None
            done = False
            if isinstance(v, ast.Call) and self._simple(v.func) and not any(isinstance(n, (ast.Yield, ast.YieldFrom, ast.Lambda, ast.NamedExpr)) for n in ast.walk(s)):
                for i, a in enumerate(v.args):
                    if isinstance(a, ast.Call) and all(self._simple(b) for b in v.args[:i]) and not any(isinstance(n, ast.Starred) for n in v.args):
                        self.k += 1
                        nm = f"_h{self.k}"
                        out.append(ast.copy_location(ast.Assign(targets=[ast.Name(id=nm, ctx=ast.Store())], value=a), s))
                        v.args[i] = ast.Name(id=nm, ctx=ast.Load())
                        out.append(s)
                        done = True
                        break
                    if not self._simple(a):
                        break
            if not done:
                out.append(s)
        return out
    def generic_visit(self, node):
        super().generic_visit(node)
        if isinstance(node, (ast.ListComp, ast.GeneratorExp, ast.SetComp, ast.DictComp)):
            return node
        for f in ("body", "orelse", "finalbody"):
            b = getattr(node, f, None)
            if isinstance(b, list) and b and isinstance(b[0], ast.stmt):
                setattr(node, f, self._block(b))
        return node


class Marker(ast.NodeTransformer):
    """insert a harmless statement at the start of every function body (after the docstring) and of every loop body"""
    def _mk(self, ref):
        return ast.copy_location(ast.Assign(targets=[ast.Name(id="_verif_marker", ctx=ast.Store())], value=ast.Constant(value=None)), ref)
    def visit_FunctionDef(self, node):
        self.generic_visit(node)
        k = 1 if (node.body and isinstance(node.body[0], ast.Expr) and isinstance(node.body[0].value, ast.Constant) and isinstance(node.body[0].value.value, str)) else 0
        if any(isinstance(n, (ast.Global, ast.Nonlocal)) for n in node.body):
            return node
        node.body.insert(k, self._mk(node.body[0]))
        return node
    def visit_For(self, node):
        self.generic_visit(node)
        node.body.insert(0, self._mk(node.body[0]))
        return node


class AnnAssign(ast.NodeTransformer):
    """x = E  ->  x: object = E   for plain local names (type hints added)"""
    def visit_FunctionDef(self, node):
        self.generic_visit(node)
        glob = {nm for n in ast.walk(node) if isinstance(n, (ast.Global, ast.Nonlocal)) for nm in n.names}
        seen = set()
        class T(ast.NodeTransformer):
            def visit_FunctionDef(s, n): return n
            def visit_Lambda(s, n): return n
            def visit_Assign(s, n):
                if len(n.targets) == 1 and isinstance(n.targets[0], ast.Name) and n.targets[0].id not in glob and n.targets[0].id not in seen:
                    seen.add(n.targets[0].id)
                    return ast.copy_location(ast.AnnAssign(target=n.targets[0], annotation=ast.Name(id="object", ctx=ast.Load()), value=n.value, simple=1), n)
                return n
        node.body = [T().visit(b) for b in node.body]
        return node


class Decomp(ast.NodeTransformer):
    """T = [elt for tgt in it if c]   ->   T = []; for tgt in it: if c: T.append(elt)     (single generator, statement level)"""
    def _block(self, stmts):
        out = []
        for s in stmts:
            if isinstance(s, ast.Assign) and len(s.targets) == 1 and isinstance(s.targets[0], ast.Name) and isinstance(s.value, ast.ListComp) \
                    and len(s.value.generators) == 1 and not s.value.generators[0].is_async:
                g = s.value.generators[0]
                t = s.targets[0].id
                used = {n.id for n in ast.walk(s.value) if isinstance(n, ast.Name)}
                if t in used:
                    out.append(s); continue
                body = [ast.Expr(value=ast.Call(func=ast.Attribute(value=ast.Name(id=t, ctx=ast.Load()), attr="append", ctx=ast.Load()),
                                                args=[s.value.elt], keywords=[]))]
                for c in reversed(g.ifs):
                    body = [ast.If(test=c, body=body, orelse=[])]
                out.append(ast.copy_location(ast.Assign(targets=[ast.Name(id=t, ctx=ast.Store())], value=ast.List(elts=[], ctx=ast.Load())), s))
                out.append(ast.copy_location(ast.For(target=g.target, iter=g.iter, body=body, orelse=[]), s))
            else:
                out.append(s)
        return out
    def generic_visit(self, node):
        super().generic_visit(node)
        for f in ("body", "orelse", "finalbody"):
            b = getattr(node, f, None)
            if isinstance(b, list) and b and isinstance(b[0], ast.stmt):
                setattr(node, f, self._block(b))
        return node


FUNC_PARAMS = {}
METHOD_PARAMS = {}


def collect_signatures(root):
    import collections
    fcount = collections.Counter()
    for dp, dn, fn in os.walk(os.path.join(root, "molgri")):
        for f in fn:
            if not f.endswith(".py"):
                continue
            t = ast.parse(open(os.path.join(dp, f)).read())
            for n in t.body:
                if isinstance(n, ast.FunctionDef):
                    a = n.args
                    if a.vararg or a.posonlyargs:
                        FUNC_PARAMS[n.name] = None
                    else:
                        fcount[n.name] += 1
                        FUNC_PARAMS.setdefault(n.name, [x.arg for x in a.args])
                elif isinstance(n, ast.ClassDef):
                    for b in n.body:
                        if isinstance(b, ast.FunctionDef):
                            a = b.args
                            ps = None if (a.vararg or a.posonlyargs or not a.args) else [x.arg for x in a.args[1:]]
                            if b.name in METHOD_PARAMS and METHOD_PARAMS[b.name] != ps:
                                METHOD_PARAMS[b.name] = None      # ambiguous across classes
                            else:
                                METHOD_PARAMS.setdefault(b.name, ps)
    for k, c in fcount.items():
        if c > 1:
            FUNC_PARAMS[k] = None


class Kwargs(ast.NodeTransformer):
    """positional arguments of calls to repository functions / self-methods become keyword arguments"""
    def visit_Call(self, node):
        self.generic_visit(node)
        if any(isinstance(a, ast.Starred) for a in node.args) or any(k.arg is None for k in node.keywords):
            return node
        ps = None
        if isinstance(node.func, ast.Name):
            ps = FUNC_PARAMS.get(node.func.id)
        elif isinstance(node.func, ast.Attribute) and isinstance(node.func.value, ast.Name) and node.func.value.id == "self":
            ps = METHOD_PARAMS.get(node.func.attr)
        if not ps or len(node.args) > len(ps) or not node.args:
            return node
        given = {k.arg for k in node.keywords}
        new_kw = []
        for a, p_ in zip(node.args, ps):
            if p_ in given:
                return node
            new_kw.append(ast.keyword(arg=p_, value=a))
        node.keywords = new_kw + node.keywords
        node.args = []
        return node


d = tempfile.mkdtemp(prefix="verif_ast_")
for sub in ("molgri", "workflow"):
    shutil.copytree(os.path.join("/repo", sub), os.path.join(d, sub), ignore=shutil.ignore_patterns("__pycache__", "*.pyc"))
if mode == "kwargs":
    collect_signatures(d)
for dp, dn, fn in os.walk(os.path.join(d, "molgri")):
    for f in fn:
        if f.endswith(".py"):
            p = os.path.join(dp, f)
            t = ast.parse(open(p).read())
            t = {"retvar": RetVar, "ifswap": IfSwap, "hoist": Hoist, "marker": Marker, "annassign": AnnAssign, "decomp": Decomp, "kwargs": Kwargs}[mode]().visit(t)
            ast.fix_missing_locations(t)
            open(p, "w").write(ast.unparse(t) + "\n")
print(d)
