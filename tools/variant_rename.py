#!/venv/bin/python
"""dev helper: scratch copy of /repo with identifier OLD renamed to NEW everywhere (word-boundary), run all checks; prints non-zero exits"""
import os, re, shutil, subprocess, sys, tempfile
import concurrent.futures as cf
ALL = ["C01", "C02", "C03", "C04", "C05", "C07", "C08", "C09", "C10", "C11", "C12", "C13", "C14", "C15", "C16", "C17", "C18", "C19", "C20"]
def run(old, new):
    d = tempfile.mkdtemp(prefix="verif_ren_")
    try:
        for sub in ("molgri", "workflow"):
            shutil.copytree(os.path.join("/repo", sub), os.path.join(d, sub), ignore=shutil.ignore_patterns("__pycache__", "*.pyc"))
        n = 0
        for dp, dn, fn in os.walk(d):
            for f in fn:
                p = os.path.join(dp, f)
                try:
                    s = open(p).read()
                except Exception:
                    continue
                s2 = re.sub(r"\b%s\b" % re.escape(old), new, s)
                if s2 != s:
                    n += 1
                    open(p, "w").write(s2)
        def chk(pid):
            env = dict(os.environ, VERIF_REPO=d, VERIF_NO_EVIDENCE="1")
            r = subprocess.run(["/verif/check", pid], env=env, capture_output=True, text=True)
            first = [l for l in r.stdout.splitlines() if "violated" in l or "ANALYSIS-ERROR" in l][:2]
            return pid, r.returncode, first
        out = []
        with cf.ThreadPoolExecutor(6) as ex:
            for pid, rc, first in ex.map(chk, ALL):
                if rc != 0:
                    out.append((pid, rc, first))
        print(f"== {old} -> {new}: {n} files changed; non-zero: {[(p, rc) for p, rc, _ in out]}")
        for p, rc, first in out:
            for l in first:
                print("     ", l.strip()[:230])
    finally:
        shutil.rmtree(d, ignore_errors=True)
pairs = sys.argv[1:]
for k in range(0, len(pairs), 2):
    run(pairs[k], pairs[k + 1])
