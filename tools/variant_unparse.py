#!/venv/bin/python
"""dev helper: scratch copy of /repo where every molgri/*.py is replaced by ast.unparse(ast.parse(src)) (formatting, comments and
line numbers change, behaviour does not); prints the directory.  optional arg 'rename': also renames every function-local variable."""
import ast, os, shutil, sys, tempfile, builtins

def rename_locals(tree):
    class R(ast.NodeTransformer):
        def visit_FunctionDef(self, node):
            params = {a.arg for a in node.args.posonlyargs + node.args.args + node.args.kwonlyargs}
            if node.args.vararg: params.add(node.args.vararg.arg)
            if node.args.kwarg: params.add(node.args.kwarg.arg)
            stored = set()
            nested = False
            for n in ast.walk(node):
                if n is not node and isinstance(n, (ast.FunctionDef, ast.Lambda, ast.ClassDef, ast.AsyncFunctionDef)):
                    nested = True
                if isinstance(n, ast.Name) and isinstance(n.ctx, ast.Store):
                    stored.add(n.id)
                if isinstance(n, (ast.Global, ast.Nonlocal)):
                    nested = True
            if not nested:
                ren = {s: s + "_lv" for s in stored if s not in params and not hasattr(builtins, s)}
                for n in ast.walk(node):
                    if isinstance(n, ast.Name) and n.id in ren:
                        n.id = ren[n.id]
            self.generic_visit(node)
            return node
    return R().visit(tree)

d = tempfile.mkdtemp(prefix="verif_var_")
for sub in ("molgri", "workflow"):
    shutil.copytree(os.path.join("/repo", sub), os.path.join(d, sub), ignore=shutil.ignore_patterns("__pycache__", "*.pyc"))
for dp, dn, fn in os.walk(os.path.join(d, "molgri")):
    for f in fn:
        if f.endswith(".py"):
            p = os.path.join(dp, f)
            t = ast.parse(open(p).read())
            if len(sys.argv) > 1 and sys.argv[1] == "rename":
                t = rename_locals(t)
            open(p, "w").write(ast.unparse(t) + "\n")
print(d)
